package consensus

// Bounded stand-in for C02 (labelled bounded, never counted as proved): a real ConsensusState with the real block
// executor (validateBlock against the chain status) as a non-proposing validator at height 1. The round's proposer
// key is played by the test: it takes the block a real proposer node built for this height, changes one thing,
// cuts it into parts and signs a proposal for it. For the unchanged block the validator prevotes the block; for
// every changed one - wrong chain id, height, previous block id, total transaction count, consensus-parameter
// hash, validator-set hash, transaction count, data hash, last-commit hash, a precommit in the first block's last
// commit, evidence hash, an evidence item that cannot be verified, the application refusing the block - it
// prevotes nil; with the validator-set hash wrong but the header's recover flag raised (which skips that check)
// the block is refused before it is stored as the proposal block, because the flag does not match the node's own
// recover count.

import (
	"fmt"
	"testing"
	"time"

	cfg "github.com/lianxiangcloud/linkchain/config"
	cmn "github.com/lianxiangcloud/linkchain/libs/common"
	dbm "github.com/lianxiangcloud/linkchain/libs/db"
	"github.com/lianxiangcloud/linkchain/libs/log"
	"github.com/lianxiangcloud/linkchain/libs/ser"
	"github.com/lianxiangcloud/linkchain/types"
)

type b02App struct{ refuse bool }

func (a *b02App) Height() uint64                                 { return 0 }
func (a *b02App) LoadBlockMeta(uint64) *types.BlockMeta          { return nil }
func (a *b02App) LoadBlock(uint64) *types.Block                  { return nil }
func (a *b02App) LoadBlockPart(uint64, int) *types.Part          { return nil }
func (a *b02App) LoadBlockCommit(uint64) *types.Commit           { return nil }
func (a *b02App) LoadSeenCommit(uint64) *types.Commit            { return nil }
func (a *b02App) GetValidators(uint64) []*types.Validator        { return nil }
func (a *b02App) GetRecoverValidators(uint64) []*types.Validator { return nil }
func (a *b02App) PreRunBlock(*types.Block)                       {}
func (a *b02App) CheckBlock(*types.Block) bool                   { return !a.refuse }
func (a *b02App) SetLastChangedVals(uint64, []*types.Validator)  {}
func (a *b02App) CreateBlock(height uint64, maxTxs int, gasLimit uint64, timeUnix uint64) *types.Block {
	b := types.MakeBlock(height, nil, &types.Commit{})
	b.Header.Time = 77
	b.DataHash = b.Data.Hash()
	return b
}
func (a *b02App) CommitBlock(*types.Block, *types.PartSet, *types.Commit, bool) ([]*types.Validator, error) {
	return nil, nil
}

type b02Ticker struct {
	armed *timeoutInfo
	c     chan timeoutInfo
}

func (t *b02Ticker) Start() error                   { return nil }
func (t *b02Ticker) Stop() error                    { return nil }
func (t *b02Ticker) Reset() error                   { return nil }
func (t *b02Ticker) Chan() <-chan timeoutInfo       { return t.c }
func (t *b02Ticker) SetLogger(log.Logger)           {}
func (t *b02Ticker) ScheduleTimeout(ti timeoutInfo) { c := ti; t.armed = &c }

func TestBoundedC02(t *testing.T) {
	old := log.Root().GetHandler()
	log.Root().SetHandler(log.DiscardHandler())
	defer log.Root().SetHandler(old)
	nop := log.NewNopLogger()
	const chain = "verif-c02"
	pvs := []types.PrivValidator{types.NewMockPV(), types.NewMockPV(), types.NewMockPV(), types.NewMockPV()}
	var gvals []types.GenesisValidator
	for i, pv := range pvs {
		gvals = append(gvals, types.GenesisValidator{PubKey: pv.GetPubKey(), Power: 10, Name: fmt.Sprint(i)})
	}
	genDoc := &types.GenesisDoc{ChainID: chain, Validators: gvals}
	type node struct {
		cs   *ConsensusState
		app  *b02App
		tick *b02Ticker
		out  []ConsensusMessage
	}
	mk := func(pv types.PrivValidator, refuse bool) *node {
		status, _ := MakeGenesisStatus(genDoc)
		db := dbm.NewMemDB()
		SaveStatus(db, status)
		app := &b02App{refuse: refuse}
		cs := NewConsensusState(cfg.TestConsensusConfig(), status, NewBlockExecutor(db, nop, MockEvidencePool{}), app, MockMempool{}, MockEvidencePool{})
		cs.SetLogger(nop)
		cs.SetPrivValidator(pv)
		tick := &b02Ticker{c: make(chan timeoutInfo)}
		cs.SetTimeoutTicker(tick)
		bus := types.NewEventBus()
		bus.SetLogger(nop)
		bus.Start()
		cs.SetEventBus(bus)
		return &node{cs: cs, app: app, tick: tick}
	}
	drain := func(n *node) {
		for {
			select {
			case mi := <-n.cs.internalMsgQueue:
				n.out = append(n.out, mi.Msg)
				n.cs.handleMsg(mi)
			default:
				return
			}
		}
	}
	start := func(n *node) {
		n.cs.scheduleRound0(&n.cs.RoundState)
		n.cs.handleTimeout(*n.tick.armed, n.cs.RoundState)
		drain(n)
	}
	// who proposes round 0, and one validator that does not
	st0, _ := MakeGenesisStatus(genDoc)
	var proposer, other types.PrivValidator
	for _, pv := range pvs {
		if string(pv.GetAddress()) == string(st0.Validators.GetProposer().Address) {
			proposer = pv
		} else if other == nil {
			other = pv
		}
	}
	// the block a real proposer builds
	pn := mk(proposer, false)
	start(pn)
	if pn.cs.ProposalBlock == nil {
		t.Fatal("the proposer node did not build a proposal")
	}
	encoded, _ := ser.EncodeToBytes(pn.cs.ProposalBlock)
	base := func() *types.Block {
		b := new(types.Block)
		if err := ser.DecodeBytes(encoded, b); err != nil {
			t.Fatal(err)
		}
		return b
	}
	var h9 cmn.Hash
	h9[3] = 9
	badVote := &types.Vote{ValidatorAddress: []byte{1}, Height: 1, Round: 0, Type: types.VoteTypePrecommit, Timestamp: time.Unix(1, 0).UTC()}
	variants := []struct {
		name   string
		change func(b *types.Block)
		refuse bool // the application refuses
		valid  bool
		stored bool // whether the node keeps it as its proposal block at all
	}{
		{"unchanged", func(b *types.Block) {}, false, true, true},
		{"chain id", func(b *types.Block) { b.ChainID = "other" }, false, false, true},
		{"height", func(b *types.Block) { b.Height = 2 }, false, false, true},
		{"previous block id", func(b *types.Block) { b.LastBlockID = types.BlockID{Hash: h9} }, false, false, true},
		{"total transaction count", func(b *types.Block) { b.TotalTxs++ }, false, false, true},
		{"consensus-parameter hash", func(b *types.Block) { b.ConsensusHash = h9 }, false, false, true},
		{"validator-set hash", func(b *types.Block) { b.ValidatorsHash = h9 }, false, false, true},
		{"validator-set hash with the recover flag raised", func(b *types.Block) { b.ValidatorsHash = h9; b.Recover = 1 }, false, false, false},
		{"transaction count", func(b *types.Block) { b.NumTxs++ }, false, false, true},
		{"data hash", func(b *types.Block) { b.DataHash = h9 }, false, false, true},
		{"last-commit hash", func(b *types.Block) { b.LastCommitHash = h9 }, false, false, true},
		{"a precommit in the first block's last commit", func(b *types.Block) {
			b.LastCommit = &types.Commit{Precommits: []*types.Vote{badVote}}
			b.LastCommitHash = b.LastCommit.Hash()
		}, false, false, true},
		{"evidence hash", func(b *types.Block) { b.EvidenceHash = h9 }, false, false, true},
		{"an evidence item that cannot be verified", func(b *types.Block) {
			b.Evidence.Evidence = types.EvidenceList{&types.DuplicateVoteEvidence{PubKey: proposer.GetPubKey(), VoteA: badVote, VoteB: badVote}}
			b.EvidenceHash = b.Evidence.Hash()
		}, false, false, true},
		{"the application refuses the block", func(b *types.Block) {}, true, false, true},
	}
	nfail, cases := 0, 0
	for _, v := range variants {
		b := base()
		v.change(b)
		bz, err := ser.EncodeToBytes(b)
		if err != nil {
			t.Fatalf("%s: %v", v.name, err)
		}
		parts := types.NewPartSetFromData(bz, 65536)
		prop := types.NewProposal(1, 0, parts.Header(), -1, types.BlockID{})
		prop.Type = types.ProposalTypeNormal
		if err := proposer.SignProposal(chain, prop); err != nil {
			t.Fatal(err)
		}
		n := mk(other, v.refuse)
		start(n)
		cases++
		func() {
			defer func() {
				if r := recover(); r != nil {
					nfail++
					fmt.Printf("BOUNDED-FAIL: block with changed %s: the state machine panics: %v\n", v.name, r)
				}
			}()
			n.cs.handleMsg(msgInfo{&ProposalMessage{prop}, "proposer"})
			for i := 0; i < parts.Total(); i++ {
				n.cs.handleMsg(msgInfo{&BlockPartMessage{1, 0, parts.GetPart(i)}, "proposer"})
			}
			drain(n)
			if n.cs.Step < 4 && n.tick.armed != nil { // still proposing (the block was not taken): the propose timeout fires
				n.cs.handleTimeout(*n.tick.armed, n.cs.RoundState)
				drain(n)
			}
		}()
		var pv *types.Vote
		for _, m := range n.out {
			if vm, ok := m.(*VoteMessage); ok && vm.Vote.Type == types.VoteTypePrevote {
				pv = vm.Vote
			}
		}
		decoded := new(types.Block)
		ser.DecodeBytes(bz, decoded)
		switch {
		case pv == nil:
			nfail++
			fmt.Printf("BOUNDED-FAIL: block with changed %s: the validator emitted no prevote at all\n", v.name)
		case v.valid && (pv.BlockID.IsZero() || pv.BlockID.Hash != decoded.Hash()):
			nfail++
			fmt.Printf("BOUNDED-FAIL: the unchanged block of a correct proposer is not prevoted (%v)\n", pv.BlockID)
		case !v.valid && !pv.BlockID.IsZero():
			nfail++
			fmt.Printf("BOUNDED-FAIL: block with changed %s: the validator prevotes it (%X)\n", v.name, pv.BlockID.Hash.Bytes()[:4])
		}
		if !v.stored && n.cs.ProposalBlock != nil {
			nfail++
			fmt.Printf("BOUNDED-FAIL: block with changed %s: it was kept as the proposal block\n", v.name)
		}
	}
	fmt.Printf("BOUNDED-CASES: %d proposals to a real validator with the real block executor (one correct block, %d with one thing changed), %d failures\n", cases, len(variants)-1, nfail)
	if nfail > 0 {
		t.Fatalf("%d failures", nfail)
	}
}
