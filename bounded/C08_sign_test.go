package types

// Bounded stand-in for C08 (labelled bounded, never counted as proved): for every transaction kind that carries an
// account signature and can be built without libxcrypto - plain transfer, contract creation, token transfer,
// contract upgrade (two signers), and a confidential-pool transaction with an account input and an account output
// built by hand - the transaction is signed with a known key, the wire round trip keeps the sender, and then
// every field the holder of the key decided is perturbed, one at a time, on a decoded copy (no cached sender): the
// recovered sender must differ from the signer, or recovery must fail. Signature values: r and s replaced by 0,
// by the group order N, by N-s (the malleable twin, with v flipped), v out of range; the chain parameter: the
// signature of another chain's signer is not accepted.

import (
	"fmt"
	"math/big"
	"testing"

	"github.com/lianxiangcloud/linkchain/libs/common"
	"github.com/lianxiangcloud/linkchain/libs/crypto"
	lctypes "github.com/lianxiangcloud/linkchain/libs/cryptonote/types"
	"github.com/lianxiangcloud/linkchain/libs/ser"
)

func TestBoundedC08(t *testing.T) {
	key, _ := crypto.GenerateKey()
	key2, _ := crypto.GenerateKey()
	signer := crypto.PubkeyToAddress(key.PublicKey)
	signer2 := crypto.PubkeyToAddress(key2.PublicKey)
	gp := big.NewInt(ParGasPrice)
	nfail, cases := 0, 0
	fail := func(format string, a ...interface{}) {
		nfail++
		if nfail <= 8 {
			fmt.Printf("BOUNDED-FAIL: "+format+"\n", a...)
		}
	}
	// stillSigner: does the (possibly altered) transaction still recover the signer?
	check := func(kind, what string, from func() (common.Address, error)) {
		cases++
		defer func() {
			if r := recover(); r != nil {
				fail("%s, %s: sender recovery panics: %v", kind, what, r)
			}
		}()
		a, err := from()
		if err == nil && a == signer {
			fail("%s: %s after signing, and the sender is still the signer", kind, what)
		}
	}
	// ---- plain transfer and creation
	for _, creation := range []bool{false, true} {
		kind := "transfer"
		mk := func() *Transaction {
			var tx *Transaction
			if creation {
				tx = NewContractCreation(7, big.NewInt(5), 3000000, gp, []byte{1, 2, 3})
			} else {
				tx = NewTransaction(7, common.Address{9}, big.NewInt(5), 500000, gp, []byte{1, 2, 3})
			}
			if err := tx.Sign(GlobalSTDSigner, key); err != nil {
				t.Fatal(err)
			}
			bz, _ := ser.EncodeToBytes(tx)
			cp := new(Transaction)
			if err := ser.DecodeBytes(bz, cp); err != nil {
				t.Fatal(err)
			}
			return cp
		}
		if creation {
			kind = "creation"
		}
		cases++
		if a, err := mk().From(); err != nil || a != signer {
			fail("%s: the decoded transaction does not recover its signer (%v)", kind, err)
		}
		muts := map[string]func(tx *Transaction){
			"nonce changed":                       func(tx *Transaction) { tx.data.AccountNonce++ },
			"gas price changed":                   func(tx *Transaction) { tx.data.Price = new(big.Int).Add(tx.data.Price, big.NewInt(1)) },
			"gas limit changed":                   func(tx *Transaction) { tx.data.GasLimit++ },
			"amount changed":                      func(tx *Transaction) { tx.data.Amount = big.NewInt(6) },
			"payload changed":                     func(tx *Transaction) { tx.data.Payload = []byte{1, 2, 4} },
			"payload extended":                    func(tx *Transaction) { tx.data.Payload = append(tx.data.Payload, 0) },
			"r zero":                              func(tx *Transaction) { tx.data.R = new(big.Int) },
			"s zero":                              func(tx *Transaction) { tx.data.S = new(big.Int) },
			"r = N":                               func(tx *Transaction) { tx.data.R = new(big.Int).Set(crypto.S256().Params().N) },
			"s = N":                               func(tx *Transaction) { tx.data.S = new(big.Int).Set(crypto.S256().Params().N) },
			"v + 1":                               func(tx *Transaction) { tx.data.V = new(big.Int).Add(tx.data.V, big.NewInt(1)) },
			"v + 2 (another chain's parity slot)": func(tx *Transaction) { tx.data.V = new(big.Int).Add(tx.data.V, big.NewInt(2)) },
			"v = 27 (unprotected form)":           func(tx *Transaction) { tx.data.V = big.NewInt(27) },
			"v huge":                              func(tx *Transaction) { tx.data.V = new(big.Int).Lsh(big.NewInt(1), 70) },
		}
		if !creation {
			muts["recipient changed"] = func(tx *Transaction) { r := common.Address{8}; tx.data.Recipient = &r }
			muts["recipient removed (becomes a creation)"] = func(tx *Transaction) { tx.data.Recipient = nil }
		} else {
			muts["recipient added (becomes a call)"] = func(tx *Transaction) { r := common.Address{8}; tx.data.Recipient = &r }
		}
		for what, m := range muts {
			tx := mk()
			m(tx)
			check(kind, what, tx.From)
		}
		// the malleable twin: s -> N-s with the recovery bit flipped would recover the signer: it must be refused
		for _, dv := range []int64{1, -1} {
			tx := mk()
			tx.data.S = new(big.Int).Sub(crypto.S256().Params().N, tx.data.S)
			tx.data.V = new(big.Int).Add(tx.data.V, big.NewInt(dv))
			cases++
			if a, err := tx.From(); err == nil && a == signer {
				fail("%s: the high-s twin of the signature (v%+d) is accepted and recovers the signer", kind, dv)
			}
		}
	}
	// ---- token transfer
	{
		mk := func() *TokenTransaction {
			tx := NewTokenTransaction(common.Address{0x70}, 3, common.Address{9}, big.NewInt(5), 500000, gp, []byte{7})
			if err := tx.Sign(GlobalSTDSigner, key); err != nil {
				t.Fatal(err)
			}
			bz, _ := ser.EncodeToBytes(tx)
			cp := new(TokenTransaction)
			if err := ser.DecodeBytes(bz, cp); err != nil {
				t.Fatal(err)
			}
			return cp
		}
		cases++
		if a, err := mk().From(); err != nil || a != signer {
			fail("token transfer: the decoded transaction does not recover its signer (%v)", err)
		}
		for what, m := range map[string]func(tx *TokenTransaction){
			"token address changed": func(tx *TokenTransaction) { tx.data.TokenAddress = common.Address{0x71} },
			"nonce changed":         func(tx *TokenTransaction) { tx.data.AccountNonce++ },
			"gas price changed":     func(tx *TokenTransaction) { tx.data.Price = new(big.Int).Add(tx.data.Price, big.NewInt(1)) },
			"gas limit changed":     func(tx *TokenTransaction) { tx.data.GasLimit++ },
			"recipient changed":     func(tx *TokenTransaction) { r := common.Address{8}; tx.data.Recipient = &r },
			"amount changed":        func(tx *TokenTransaction) { tx.data.Amount = big.NewInt(6) },
			"payload changed":       func(tx *TokenTransaction) { tx.data.Payload = []byte{8} },
			"v + 1":                 func(tx *TokenTransaction) { tx.data.Signdata.V = new(big.Int).Add(tx.data.Signdata.V, big.NewInt(1)) },
			"s zero":                func(tx *TokenTransaction) { tx.data.Signdata.S = new(big.Int) },
		} {
			tx := mk()
			m(tx)
			check("token transfer", what, tx.From)
		}
	}
	// ---- contract upgrade: every listed signer signed the main info
	{
		mk := func() *ContractUpgradeTx {
			info := &ContractUpgradeMainInfo{FromAddr: signer, Recipient: common.Address{0x33}, AccountNonce: 4, Payload: []byte{1, 2}}
			s1, err := SignContractUpgradeTx(key, info)
			if err != nil {
				t.Fatal(err)
			}
			s2, err := SignContractUpgradeTx(key2, info)
			if err != nil {
				t.Fatal(err)
			}
			tx := UpgradeContractTx(info, [][]byte{s1, s2})
			if tx == nil {
				t.Fatal("UpgradeContractTx")
			}
			bz, _ := ser.EncodeToBytes(tx)
			cp := new(ContractUpgradeTx)
			if err := ser.DecodeBytes(bz, cp); err != nil {
				t.Fatal(err)
			}
			return cp
		}
		has := func(tx *ContractUpgradeTx) func() (common.Address, error) {
			return func() (common.Address, error) {
				ss, err := tx.Senders()
				if err != nil {
					return common.Address{}, err
				}
				for _, a := range ss {
					if a == signer || a == signer2 {
						return signer, nil // one of the real signers is still recovered
					}
				}
				return common.Address{}, nil
			}
		}
		cases++
		if ss, err := mk().Senders(); err != nil || len(ss) != 2 || ss[0] != signer || ss[1] != signer2 {
			fail("contract upgrade: the decoded transaction does not recover its two signers (%v %v)", ss, err)
		}
		for what, m := range map[string]func(tx *ContractUpgradeTx){
			"declared sender changed": func(tx *ContractUpgradeTx) { tx.FromAddr = common.Address{1} },
			"contract changed":        func(tx *ContractUpgradeTx) { tx.Recipient = common.Address{0x34} },
			"nonce changed":           func(tx *ContractUpgradeTx) { tx.AccountNonce++ },
			"code changed":            func(tx *ContractUpgradeTx) { tx.Payload = []byte{1, 3} },
		} {
			tx := mk()
			m(tx)
			check("contract upgrade", what, has(tx))
		}
	}
	// ---- a confidential-pool transaction with an account input and an account output, built by hand
	{
		mk := func() *UTXOTransaction {
			tx := &UTXOTransaction{
				Inputs:  []Input{&AccountInput{Nonce: 2, Amount: big.NewInt(1e18), CF: lctypes.Key{1}, Commit: lctypes.Key{2}}},
				Outputs: []Output{&AccountOutput{To: common.Address{9}, Amount: big.NewInt(9e17), Data: []byte{5}, Commit: lctypes.Key{3}}},
				TokenID: common.EmptyAddress, RKey: lctypes.PublicKey{4}, AddKeys: []lctypes.PublicKey{{5}}, Fee: big.NewInt(1e17), Extra: []byte{6},
			}
			if err := tx.Sign(GlobalSTDSigner, key); err != nil {
				t.Fatal(err)
			}
			bz, err := ser.EncodeToBytes(tx)
			if err != nil {
				t.Fatal(err)
			}
			cp := new(UTXOTransaction)
			if err := ser.DecodeBytes(bz, cp); err != nil {
				t.Fatal(err)
			}
			return cp
		}
		cases++
		if a, err := mk().From(); err != nil || a != signer {
			fail("pool transaction: the decoded transaction does not recover its signer (%v)", err)
		}
		for what, m := range map[string]func(tx *UTXOTransaction){
			"input nonce changed":       func(tx *UTXOTransaction) { tx.Inputs[0].(*AccountInput).Nonce++ },
			"input amount changed":      func(tx *UTXOTransaction) { tx.Inputs[0].(*AccountInput).Amount = big.NewInt(2e18) },
			"input blinding changed":    func(tx *UTXOTransaction) { tx.Inputs[0].(*AccountInput).CF[0] ^= 1 },
			"input commitment changed":  func(tx *UTXOTransaction) { tx.Inputs[0].(*AccountInput).Commit[0] ^= 1 },
			"output recipient changed":  func(tx *UTXOTransaction) { tx.Outputs[0].(*AccountOutput).To = common.Address{8} },
			"output amount changed":     func(tx *UTXOTransaction) { tx.Outputs[0].(*AccountOutput).Amount = big.NewInt(8e17) },
			"output data changed":       func(tx *UTXOTransaction) { tx.Outputs[0].(*AccountOutput).Data = []byte{6} },
			"output commitment changed": func(tx *UTXOTransaction) { tx.Outputs[0].(*AccountOutput).Commit[0] ^= 1 },
			"an output added": func(tx *UTXOTransaction) {
				tx.Outputs = append(tx.Outputs, &AccountOutput{To: common.Address{7}, Amount: big.NewInt(1), Commit: lctypes.Key{}})
			},
			"token changed":           func(tx *UTXOTransaction) { tx.TokenID = common.Address{0x70} },
			"transaction key changed": func(tx *UTXOTransaction) { tx.RKey[0] ^= 1 },
			"additional key changed":  func(tx *UTXOTransaction) { tx.AddKeys[0][0] ^= 1 },
			"fee changed":             func(tx *UTXOTransaction) { tx.Fee = big.NewInt(2e17) },
			"extra changed":           func(tx *UTXOTransaction) { tx.Extra = []byte{7} },
			"v + 1":                   func(tx *UTXOTransaction) { tx.Sigs.V = new(big.Int).Add(tx.Sigs.V, big.NewInt(1)) },
		} {
			tx := mk()
			m(tx)
			check("pool transaction", what, tx.From)
		}
	}
	fmt.Printf("BOUNDED-CASES: %d cases (five kinds of signed transaction; every field the signer decided, signature values and the malleable twin perturbed one at a time on a decoded copy), %d failures\n", cases, nfail)
	if nfail > 0 {
		t.Fatalf("%d failures", nfail)
	}
}
