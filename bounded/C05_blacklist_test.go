package runtime_test

// Bounded stand-in for C05 (labelled bounded, never counted as proved): the node's address blacklist decides
// whether a block is processed at all (app.verifyTxsOnProcess refuses a block carrying a listed address; the
// mempool refuses such transactions). It must be a function of the committed chain. Here the committed chain
// never touches the blacklist contract; process histories differ in what was executed WITHOUT being committed:
// nothing, or a simulated call (the eth_call path: rpc/ethapi doCall -> app.ApplyMessage on a copy of the state,
// sender chosen by the caller). After the next commit (types.BlacklistInstance.UpdateBlacklist, as CommitBlock
// calls it) every history must see the same blacklist. The class "blacklist fed by executions that were never
// committed" is a listed known finding (VERIF_KNOWN contains blacklist-fed-by-uncommitted-execution).

import (
	"encoding/hex"
	"fmt"
	"math/big"
	"os"
	"strings"
	"testing"

	"github.com/lianxiangcloud/linkchain/app"
	"github.com/lianxiangcloud/linkchain/config"
	"github.com/lianxiangcloud/linkchain/libs/common"
	dbm "github.com/lianxiangcloud/linkchain/libs/db"
	"github.com/lianxiangcloud/linkchain/state"
	"github.com/lianxiangcloud/linkchain/types"
	"github.com/lianxiangcloud/linkchain/vm"
	"github.com/lianxiangcloud/linkchain/vm/evm"
	"github.com/lianxiangcloud/linkchain/vm/wasm"
)

func TestBoundedC05Blacklist(t *testing.T) {
	known := os.Getenv("VERIF_KNOWN")
	victim := common.HexToAddress("0x00000000000000000000000000000000000000aa")
	// stand-in for the blacklist contract: answers {"ret":"<op><address>"}; the real contract decides by
	// msg.sender, which a simulated call lets the caller choose
	mkCode := func(op string) []byte {
		ret := []byte(`{"ret":"` + op + victim.Hex() + `"}`)
		n := hex.EncodeToString([]byte{byte(len(ret))})
		code, _ := hex.DecodeString("60" + n + "600c600039" + "60" + n + "6000f3")
		return append(code, ret...)
	}
	simulate := func(st *state.StateDB) {
		sim := st.Copy()
		from := common.HexToAddress("0x00000000000000000000000000000000000000bb")
		to := config.ContractBlacklistAddr
		msg := types.NewMessage(from, &to, common.EmptyAddress, 0, big.NewInt(0), 1000000, big.NewInt(1e11), nil)
		sim.SetBalance(from, new(big.Int).Lsh(big.NewInt(1), 200))
		header := &types.Header{Height: 5, Time: 1, GasLimit: 1e9}
		vmenv := vm.NewVM()
		cevm := evm.NewEVMContext(header, nil, nil, config.EvmGasRate)
		vmenv.AddVm(&cevm, sim, evm.Config{})
		cwasm := wasm.NewWASMContext(header, nil, nil, config.WasmGasRate)
		vmenv.AddVm(&cwasm, sim, evm.Config{})
		realvm := vmenv.GetRealVm(sim.GetCode(to), &to)
		realvm.Reset(msg)
		realvm.SetToken(msg.TokenAddress())
		if _, _, _, _, _, vmerr, err := app.ApplyMessage(realvm, msg, common.EmptyAddress); vmerr != nil || err != nil {
			t.Fatalf("simulated call: %v %v", vmerr, err)
		}
	}
	nfail, cases, knownN := 0, 0, 0
	for _, op := range []string{"addBlackAddress", "delBlackAddress"} {
		var ref bool
		for i, hist := range []string{"nothing executed besides the chain", "one simulated call to the blacklist contract (eth_call path)"} {
			// a fresh process: blacklist loaded from its database; for the delete case the victim is listed on chain
			bdb := dbm.NewMemDB()
			if op == "delBlackAddress" {
				bdb.Set([]byte("bl_"+victim.Hex()), victim.Bytes())
			}
			// the instance is process-wide: take the victim off it (a fresh process), then load from the database
			types.BlacklistInstance.Init(dbm.NewMemDB())
			types.BlacklistInstance.DealBlackAddrsChanges([]byte(`{"ret":"delBlackAddress` + victim.Hex() + `"}`))
			types.BlacklistInstance.UpdateBlacklist()
			types.BlacklistInstance.Init(bdb)
			st, _ := state.New(common.EmptyHash, state.NewDatabase(dbm.NewMemDB()))
			st.SetCode(config.ContractBlacklistAddr, mkCode(op))
			root := st.IntermediateRoot(false)
			if i == 1 {
				simulate(st)
			}
			if st.IntermediateRoot(false) != root {
				nfail++
				fmt.Printf("BOUNDED-FAIL: %s: the committed state changed\n", hist)
			}
			types.BlacklistInstance.UpdateBlacklist() // the next CommitBlock
			listed := types.BlacklistInstance.IsBlackAddress(victim)
			cases++
			if i == 0 {
				ref = listed
			} else if listed != ref {
				if strings.Contains(known, "blacklist-fed-by-uncommitted-execution") {
					knownN++
				} else {
					nfail++
					fmt.Printf("BOUNDED-FAIL: %s after %q: victim listed = %v; a node that only executed the chain: %v\n", op, hist, listed, ref)
				}
			}
		}
	}
	if knownN > 0 {
		fmt.Printf("KNOWN-FINDING: property=C05 a call to the blacklist contract queues its changes in a process-wide list whenever it is executed - also in a simulation (eth_call, sender chosen by the caller) or in a block that is never committed - and the next CommitBlock applies the whole list: the set of addresses whose transactions make a block unprocessable differs between nodes that executed the same chain (%d of the enumerated cases)\n", knownN)
	}
	fmt.Printf("BOUNDED-CASES: %d cases (add and delete of one address; process histories: chain only / one simulated call), %d failures\n", cases, nfail)
	if nfail > 0 {
		t.Fatalf("%d failures", nfail)
	}
}
