package db

// Bounded stand-in for C19 (labelled bounded, never counted as proved): every backend of the working tree (and
// prefixed views) against a sorted-map model: operation sequences over a crafted key pool (shared prefixes,
// 0xFF-terminated, binary), Get/Has, forward and reverse iterators over all bound pairs, batches (written,
// abandoned), close and reopen. The empty key is left out for Bolt and Badger when the corresponding known
// findings are listed (VERIF_KNOWN).

import (
	"bytes"
	"fmt"
	"math/rand"
	"os"
	"sort"
	"strings"
	"testing"
)

type bkv struct{ k, v []byte }

func bModelIter(m map[string][]byte, start, end []byte, rev bool) []bkv {
	var keys []string
	for k := range m {
		kb := []byte(k)
		if !rev {
			if start != nil && bytes.Compare(kb, start) < 0 {
				continue
			}
			if end != nil && bytes.Compare(kb, end) >= 0 {
				continue
			}
		} else {
			if start != nil && bytes.Compare(kb, start) > 0 {
				continue
			}
			if end != nil && bytes.Compare(kb, end) <= 0 {
				continue
			}
		}
		keys = append(keys, k)
	}
	sort.Strings(keys)
	if rev {
		for i, j := 0, len(keys)-1; i < j; i, j = i+1, j-1 {
			keys[i], keys[j] = keys[j], keys[i]
		}
	}
	out := make([]bkv, len(keys))
	for i, k := range keys {
		out[i] = bkv{[]byte(k), m[k]}
	}
	return out
}

func bDrain(it Iterator) (out []bkv) {
	defer it.Close()
	for ; it.Valid(); it.Next() {
		out = append(out, bkv{append([]byte(nil), it.Key()...), append([]byte(nil), it.Value()...)})
		if len(out) > 1000 {
			break
		}
	}
	return
}

func bSame(a, b []bkv) bool {
	if len(a) != len(b) {
		return false
	}
	for i := range a {
		if !bytes.Equal(a[i].k, b[i].k) || !bytes.Equal(a[i].v, b[i].v) {
			return false
		}
	}
	return true
}

func bFmt(x []bkv) string {
	s := ""
	for _, e := range x {
		s += fmt.Sprintf("%x=%x ", e.k, e.v)
	}
	return s
}

func TestBoundedC19(t *testing.T) {
	pool := [][]byte{{}, {0}, {1}, {1, 0}, {1, 0xff}, {1, 0xff, 0xff}, {2}, {0xff}, {0xff, 0xff}, {0x7f, 1}}
	bounds := append([][]byte{nil}, pool[1:]...)
	dir, _ := os.MkdirTemp("", "c19bounded")
	defer os.RemoveAll(dir)
	seed := int64(1)
	fmt.Sscan(os.Getenv("VERIF_SEED"), &seed)
	trials, nops := 30, 14
	if os.Getenv("VERIF_TIER") == "thorough" {
		trials, nops = 250, 20
	}
	known := os.Getenv("VERIF_KNOWN")
	type mkT struct {
		name     string
		open     func(i int) DB
		emptyKey bool // the backend stores the empty key (false: listed known finding)
		reopen   bool
	}
	must := func(d DB, err error) DB {
		if err != nil {
			panic(err)
		}
		return d
	}
	backends := []mkT{
		{"memdb", func(i int) DB { return NewMemDB() }, true, false},
		{"goleveldb", func(i int) DB { return must(NewGoLevelDB(fmt.Sprintf("g%d", i), dir, 1)) }, true, true},
		{"bolt", func(i int) DB { return must(NewBoltDB(fmt.Sprintf("b%d", i), dir, 1)) }, false, true},
		{"prefix(memdb)", func(i int) DB { return NewPrefixDB(NewMemDB(), []byte{9, 0xff}) }, true, false},
		{"prefix(goleveldb)", func(i int) DB {
			return NewPrefixDB(must(NewGoLevelDB(fmt.Sprintf("pg%d", i), dir, 1)), []byte{0xff, 0xff})
		}, true, false},
	}
	rng := rand.New(rand.NewSource(seed))
	nfail, cases := 0, 0
	fail := func(format string, a ...interface{}) {
		nfail++
		if nfail <= 6 {
			fmt.Printf("BOUNDED-FAIL: "+format+"\n", a...)
		}
	}
	knownEmpty, knownFF := 0, 0
	for _, be := range backends {
		if !be.emptyKey && !strings.Contains(known, "empty-key") {
			be.emptyKey = true // not listed: the difference is reported like any other
		}
		for trial := 0; trial < trials; trial++ {
			func() {
				defer func() {
					if r := recover(); r != nil {
						fail("%s: panic %v", be.name, r)
					}
				}()
				db := be.open(trial)
				defer func() { db.Close() }()
				model := map[string][]byte{}
				keyOf := func() []byte {
					k := pool[rng.Intn(len(pool))]
					for len(k) == 0 && !be.emptyKey {
						knownEmpty++
						k = pool[rng.Intn(len(pool))]
					}
					return k
				}
				for op := 0; op < nops; op++ {
					switch r := rng.Intn(10); {
					case r < 2:
						k := keyOf()
						db.Delete(k)
						delete(model, string(k))
					case r < 7:
						k := keyOf()
						v := []byte{byte(1 + rng.Intn(200))}
						db.Set(k, v)
						model[string(k)] = v
					case r < 9: // a batch of three operations, written
						b := db.NewBatch()
						for j := 0; j < 3; j++ {
							k := keyOf()
							if rng.Intn(3) == 0 {
								b.Delete(k)
								delete(model, string(k))
							} else {
								v := []byte{byte(1 + rng.Intn(200)), 0xbb}
								b.Set(k, v)
								model[string(k)] = v
							}
						}
						b.Write()
					default: // a batch that is abandoned: nothing of it may become visible
						b := db.NewBatch()
						b.Set(keyOf(), []byte{0xee})
						b.Delete(keyOf())
					}
					if be.reopen && op == nops/2 {
						db.Close()
						db = be.open(trial)
					}
				}
				cases++
				for _, k := range pool {
					if len(k) == 0 && !be.emptyKey {
						continue
					}
					want, ok := model[string(k)]
					if got := db.Get(k); !bytes.Equal(got, want) {
						fail("%s Get(%x): got %x want %x", be.name, k, got, want)
					}
					if db.Has(k) != ok {
						fail("%s Has(%x): got %v want %v", be.name, k, !ok, ok)
					}
				}
				for _, s := range bounds {
					for _, e := range bounds {
						if s == nil || e == nil || bytes.Compare(s, e) < 0 {
							got, want := bDrain(db.Iterator(s, e)), bModelIter(model, s, e, false)
							if !bSame(got, want) {
								fail("%s Iterator(%x,%x): got %s want %s", be.name, s, e, bFmt(got), bFmt(want))
							}
						}
						if s == nil || e == nil || bytes.Compare(s, e) > 0 {
							got, want := bDrain(db.ReverseIterator(s, e)), bModelIter(model, s, e, true)
							if !bSame(got, want) {
								fail("%s ReverseIterator(%x,%x): got %s want %s", be.name, s, e, bFmt(got), bFmt(want))
							}
						}
					}
				}
			}()
		}
	}
	// prefixed views and IteratePrefix next to neighbouring keys of the underlying store (prefixes ending in 0xFF)
	for _, prefix := range [][]byte{{1}, {1, 0xff}, {0xff}, {0xff, 0xff}} {
		under := NewMemDB()
		all := [][]byte{{0}, {1}, {1, 0}, {1, 0xfe}, {1, 0xff}, {1, 0xff, 0}, {1, 0xff, 0xff}, {2}, {2, 0}, {0xff}, {0xff, 0xff}, {0xff, 0xff, 1}}
		model := map[string][]byte{}
		for i, k := range all {
			under.Set(k, []byte{byte(i + 1)})
			if bytes.HasPrefix(k, prefix) {
				model[string(k[len(prefix):])] = []byte{byte(i + 1)}
			}
		}
		cases++
		// IteratePrefix yields exactly the keys with the prefix
		var wantFull []bkv
		for _, e := range bModelIter(model, nil, nil, false) {
			wantFull = append(wantFull, bkv{append(append([]byte(nil), prefix...), e.k...), e.v})
		}
		if got := bDrain(IteratePrefix(under, prefix)); !bSame(got, wantFull) {
			if strings.Contains(known, "prefix-ff-neighbour") && len(prefix) > 0 && prefix[len(prefix)-1] == 0xff {
				knownFF++
			} else {
				fail("IteratePrefix(%x): got %s want %s", prefix, bFmt(got), bFmt(wantFull))
			}
		}
		view := NewPrefixDB(under, prefix)
		if got, want := bDrain(view.Iterator(nil, nil)), bModelIter(model, nil, nil, false); !bSame(got, want) {
			fail("prefix(%x).Iterator(nil,nil): got %s want %s", prefix, bFmt(got), bFmt(want))
		}
		if got, want := bDrain(view.ReverseIterator(nil, nil)), bModelIter(model, nil, nil, true); !bSame(got, want) {
			if strings.Contains(known, "prefix-ff-neighbour") && len(prefix) > 0 && prefix[len(prefix)-1] == 0xff {
				knownFF++
			} else {
				fail("prefix(%x).ReverseIterator(nil,nil): got %s want %s", prefix, bFmt(got), bFmt(want))
			}
		}
	}
	if knownFF > 0 {
		fmt.Printf("KNOWN-FINDING: property=C19 for a prefix ending in 0xFF, cpIncr(prefix) keeps the length, so a neighbouring key equal to the truncated increment falls inside [prefix, cpIncr(prefix)) (%d cases in this run)\n", knownFF)
	}
	if knownEmpty > 0 {
		fmt.Printf("KNOWN-FINDING: property=C19 the Bolt wrapper loses writes of the empty key: the bounded stand-in leaves the empty key out for it (%d draws)\n", knownEmpty)
	}
	fmt.Printf("BOUNDED-CASES: %d operation sequences (%d backends x %d trials, %d operations each incl. batches written and abandoned, close+reopen for the on-disk ones; key pool of %d; Get/Has on every key; forward and reverse iterators over all %d x %d bound pairs), %d failures\n", cases, len(backends), trials, nops, len(pool), len(bounds), len(bounds), nfail)
	if nfail > 0 {
		t.Fatalf("%d failures", nfail)
	}
}
