package consensus

// Bounded stand-in for C14 (labelled bounded, never counted as proved): the per-record contract of Decode is
// proved; its composition over whole logs, rotation and the file group's index discovery are run here on the real
// code. A fixed message sequence (votes-free: timeouts and height markers) is written through the real WAL with
// every placement of one or two rotations; then
//  (a) every height marker is found iff it was written, and the returned reader continues with the next message;
//  (b) the group is reopened (index discovery from the directory) and (a) must hold again;
//  (c) the concatenated log is cut at EVERY byte offset and, separately, EVERY byte is altered (quick: one bit
//      pattern, thorough: three): decoding the damaged stream yields a prefix of the written messages, in
//      order, followed by EOF or an error - never a message that was not written;
//  (d) rotated files with index >= 1000 (four digits) are recognised as part of the group on reopen.

import (
	"bytes"
	"fmt"
	"io"
	"io/ioutil"
	"os"
	"path/filepath"
	"reflect"
	"testing"
	"time"

	"github.com/lianxiangcloud/linkchain/consensus/types"
	auto "github.com/lianxiangcloud/linkchain/libs/autofile"
)

func bWalMsgs() []WALMessage {
	to := func(h uint64, s types.RoundStepType) WALMessage {
		return timeoutInfo{Duration: time.Second, Height: h, Round: 0, Step: s}
	}
	return []WALMessage{
		to(1, types.RoundStepPropose), EndHeightMessage{1},
		to(2, types.RoundStepPropose), to(2, types.RoundStepPrevote), EndHeightMessage{2},
		to(3, types.RoundStepPropose), EndHeightMessage{3},
		to(4, types.RoundStepPropose), to(4, types.RoundStepPrevote),
	}
}

func TestBoundedC14(t *testing.T) {
	nfail, cases := 0, 0
	fail := func(format string, a ...interface{}) {
		nfail++
		if nfail <= 6 {
			fmt.Printf("BOUNDED-FAIL: "+format+"\n", a...)
		}
	}
	msgs := bWalMsgs()
	written := map[uint64]int{0: -1}
	for i, m := range msgs {
		if e, ok := m.(EndHeightMessage); ok {
			written[e.Height] = i
		}
	}
	checkSearch := func(wal *baseWAL, what string) {
		for h := uint64(0); h <= 5; h++ {
			pos, want := written[h]
			gr, found, err := wal.SearchForEndHeight(h, &WALSearchOptions{IgnoreDataCorruptionErrors: true})
			cases++
			if err != nil || found != want {
				fail("%s: SearchForEndHeight(%d) found=%v err=%v, marker written=%v", what, h, found, err, want)
				continue
			}
			if found {
				next, derr := NewWALDecoder(gr).Decode()
				if derr != nil || !reflect.DeepEqual(next.Msg, msgs[pos+1]) {
					fail("%s: after marker %d got %v (err %v), want %#v", what, h, next, derr, msgs[pos+1])
				}
				gr.Close()
			}
		}
	}
	layout := func(rot map[int]bool) {
		dir, _ := ioutil.TempDir("", "c14b")
		defer os.RemoveAll(dir)
		wal, err := NewWAL(filepath.Join(dir, "wal"))
		if err != nil {
			t.Fatal(err)
		}
		if err := wal.Start(); err != nil {
			t.Fatal(err)
		}
		for i, m := range msgs {
			wal.WriteSync(m)
			if rot[i] {
				wal.group.RotateFile()
			}
		}
		what := fmt.Sprintf("rotations after %v", rot)
		checkSearch(wal, what)
		wal.Stop()
		wal.group.Head.Close()
		// reopen: min/max index are rediscovered from the directory
		wal2, err := NewWAL(filepath.Join(dir, "wal"))
		if err != nil {
			t.Fatal(err)
		}
		checkSearch(wal2, what+" (reopened)")
		wal2.group.Head.Close()
	}
	layout(map[int]bool{})
	for i := 0; i < len(msgs)-1; i++ {
		layout(map[int]bool{i: true})
		for j := i + 1; j < len(msgs)-1; j++ {
			layout(map[int]bool{i: true, j: true})
		}
	}
	// (c) damage: encode the sequence into one buffer with the real encoder
	var buf bytes.Buffer
	enc := NewWALEncoder(&buf)
	var ends []int
	for _, m := range msgs {
		if err := enc.Encode(&TimedWALMessage{Time: time.Unix(1000, 0).UTC(), Msg: m}); err != nil {
			t.Fatal(err)
		}
		ends = append(ends, buf.Len())
	}
	whole := buf.Bytes()
	readAll := func(b []byte) (out []WALMessage, last error) {
		dec := NewWALDecoder(bytes.NewReader(b))
		for {
			m, err := dec.Decode()
			if err != nil {
				return out, err
			}
			out = append(out, m.Msg)
			if len(out) > len(msgs)+2 {
				return out, fmt.Errorf("too many messages")
			}
		}
	}
	isPrefix := func(got []WALMessage) bool {
		if len(got) > len(msgs) {
			return false
		}
		for i := range got {
			if !reflect.DeepEqual(got[i], msgs[i]) {
				return false
			}
		}
		return true
	}
	for cut := 0; cut <= len(whole); cut++ {
		got, last := readAll(whole[:cut])
		cases++
		complete := 0
		for _, e := range ends {
			if e <= cut {
				complete++
			}
		}
		if !isPrefix(got) || len(got) != complete {
			fail("cut at %d: read %d messages (prefix=%v), %d were completely written", cut, len(got), isPrefix(got), complete)
		}
		if last == nil {
			fail("cut at %d: no terminating EOF/error", cut)
		}
		if cut == len(whole) && last != io.EOF {
			fail("intact log does not end with io.EOF: %v", last)
		}
	}
	patterns := []byte{0x01}
	if os.Getenv("VERIF_TIER") == "thorough" {
		patterns = []byte{0x01, 0x80, 0xff}
	}
	for _, p := range patterns {
		for pos := 0; pos < len(whole); pos++ {
			bad := append([]byte(nil), whole...)
			bad[pos] ^= p
			got, _ := readAll(bad)
			cases++
			// everything decoded before the damaged record must be the written prefix; nothing not written may appear
			damaged := 0
			for i, e := range ends {
				if pos < e {
					damaged = i
					break
				}
			}
			if len(got) > damaged {
				// the stream went on past the damaged record: only acceptable if what it yields is still the written prefix
				if !isPrefix(got) {
					fail("byte %d ^ %#x (record %d): a message that was not written was returned (%d messages)", pos, p, damaged, len(got))
				}
			} else if !isPrefix(got) {
				fail("byte %d ^ %#x: not a prefix", pos, p)
			}
		}
	}
	// (d) index width: files wal.999 / wal.1000 / wal.1001 must be part of the group after a reopen
	{
		dir, _ := ioutil.TempDir("", "c14idx")
		defer os.RemoveAll(dir)
		head := filepath.Join(dir, "wal")
		for _, n := range []string{".999", ".1000", ".1001", ""} {
			ioutil.WriteFile(head+n, []byte{}, 0600)
		}
		g, err := auto.OpenGroup(head)
		if err != nil {
			t.Fatal(err)
		}
		cases++
		if g.MinIndex() != 999 || g.MaxIndex() != 1002 {
			fail("group with files wal.999, wal.1000, wal.1001 + head: MinIndex=%d MaxIndex=%d, want 999 and 1002", g.MinIndex(), g.MaxIndex())
		}
		g.Head.Close()
	}
	fmt.Printf("BOUNDED-CASES: %d checks (%d messages; every placement of 0, 1 or 2 rotations, searched live and after reopen; every cut offset 0..%d; every byte altered with %d bit pattern(s); four-digit file indices), %d failures\n", cases, len(msgs), len(whole), len(patterns), nfail)
	if nfail > 0 {
		t.Fatalf("%d failures", nfail)
	}
}
