package app

// Bounded stand-in for C05 (labelled bounded, never counted as proved): the same two blocks executed by real
// LinkApplications that reach them in different ways - the proposer (CreateBlock + PreRunBlock), a validator that
// never saw the transactions before (CheckBlock), a validator that has them in its mempool cache, a validator
// that checks each block twice, and a validator that is restarted (new LinkApplication over the same databases)
// between the two blocks. Every node must compute the proposer's state hash, receipt hash and gas (CheckBlock
// accepts), commit, and end with the same stored receipts, balances, nonces and contract code. Transactions:
// plain transfers (also to a fresh account and a second one from the same sender), a contract creation (EVM),
// a call to the created contract that writes storage, a transfer with insufficient funds for its value.

import (
	"encoding/hex"
	"fmt"
	"io/ioutil"
	"math/big"
	"os"
	"testing"

	"github.com/lianxiangcloud/linkchain/blockchain"
	"github.com/lianxiangcloud/linkchain/config"
	"github.com/lianxiangcloud/linkchain/libs/common"
	"github.com/lianxiangcloud/linkchain/libs/crypto"
	lctypes "github.com/lianxiangcloud/linkchain/libs/cryptonote/types"
	dbm "github.com/lianxiangcloud/linkchain/libs/db"
	"github.com/lianxiangcloud/linkchain/libs/log"
	"github.com/lianxiangcloud/linkchain/libs/ser"
	"github.com/lianxiangcloud/linkchain/libs/txmgr"
	"github.com/lianxiangcloud/linkchain/metrics"
	"github.com/lianxiangcloud/linkchain/types"
	"github.com/lianxiangcloud/linkchain/utxo"
)

type c05xMempool struct {
	txs   types.Txs
	cache map[common.Hash]types.Tx
}

func (m *c05xMempool) Reap(int) types.Txs                    { return m.txs }
func (*c05xMempool) Update(uint64, types.Txs) error          { return nil }
func (m *c05xMempool) GetTxFromCache(h common.Hash) types.Tx { return m.cache[h] }
func (*c05xMempool) Lock()                                   {}
func (*c05xMempool) Unlock()                                 {}
func (*c05xMempool) KeyImageExists(lctypes.Key) bool         { return false }
func (*c05xMempool) KeyImagePush(lctypes.Key) bool           { return true }
func (*c05xMempool) KeyImageRemoveKeys([]*lctypes.Key)       {}
func (*c05xMempool) KeyImageReset()                          {}

type c05xDisk struct{ state, block, cross, u1, u2, u3, br dbm.DB }

type c05xNode struct {
	name string
	disk *c05xDisk
	app  *LinkApplication
	mp   *c05xMempool
}

func TestBoundedC05BlockExec(t *testing.T) {
	// the flat state keeps an undo log file in the working directory: work in a scratch directory, not in /repo
	if dir, err := ioutil.TempDir("", "verifbounded"); err == nil {
		defer os.RemoveAll(dir)
		os.Chdir(dir)
	}
	sk := crypto.GenPrivKeySecp256k1()
	metrics.PrometheusMetricInstance.Init(config.DefaultConfig(), sk.PubKey(), log.NewNopLogger())
	metrics.PrometheusMetricInstance.SetCurrentProposerPubkey(sk.PubKey())
	metrics.PrometheusMetricInstance.SetRole(types.NodePeer)

	keyA, _ := crypto.GenerateKey()
	keyB, _ := crypto.GenerateKey()
	addrA, addrB := crypto.PubkeyToAddress(keyA.PublicKey), crypto.PubkeyToAddress(keyB.PublicKey)
	fresh1, fresh2 := common.Address{0x71}, common.Address{0x72}
	gp := big.NewInt(types.ParGasPrice)
	one := big.NewInt(1e18)
	sign := func(tx *types.Transaction, k interface{}) *types.Transaction {
		var err error
		if k == "A" {
			err = tx.Sign(types.GlobalSTDSigner, keyA)
		} else {
			err = tx.Sign(types.GlobalSTDSigner, keyB)
		}
		if err != nil {
			t.Fatal(err)
		}
		return tx
	}
	fee := func(v *big.Int) uint64 { return types.CalNewAmountGas(v, types.EverLiankeFee) }
	// contract: constructor stores nothing; runtime: SSTORE(0, CALLDATASIZE+1); returns nothing
	runtime, _ := hex.DecodeString("366001016000550000")
	initCode := append([]byte{0x60, byte(len(runtime)), 0x60, 0x0c, 0x60, 0x00, 0x39, 0x60, byte(len(runtime)), 0x60, 0x00, 0xf3}, runtime...)
	create := sign(types.NewContractCreation(1, big.NewInt(0), 3000000, gp, initCode), "A")
	contractAddr := crypto.CreateAddress(addrA, 1, initCode)
	block1 := types.Txs{
		sign(types.NewTransaction(0, fresh1, one, fee(one), gp, nil), "A"),
		create,
		sign(types.NewTransaction(0, addrA, one, fee(one), gp, nil), "B"),
		sign(types.NewTransaction(2, fresh2, one, fee(one), gp, nil), "A"),
	}
	huge := new(big.Int).Div(new(big.Int).Mul(one, big.NewInt(893)), big.NewInt(100)) // 8.93: B's balance covers the fee but not the value plus the fee
	block2 := types.Txs{
		sign(types.NewTransaction(3, contractAddr, big.NewInt(0), 3000000, gp, []byte{1, 2, 3}), "A"),
		sign(types.NewTransaction(1, fresh1, huge, fee(huge), gp, nil), "B"), // more than B has
		sign(types.NewTransaction(4, fresh1, one, fee(one), gp, nil), "A"),
	}

	open := func(name string, d *c05xDisk) *c05xNode {
		if d == nil {
			d = &c05xDisk{dbm.NewMemDB(), dbm.NewMemDB(), dbm.NewMemDB(), dbm.NewMemDB(), dbm.NewMemDB(), dbm.NewMemDB(), dbm.NewMemDB()}
			bs := blockchain.NewBlockStore(d.block)
			g := &types.Block{Header: &types.Header{Height: 0, Time: 1507737600, GasLimit: types.DefaultConsensusParams().BlockSize.MaxGas}, Data: &types.Data{}, LastCommit: &types.Commit{}}
			bs.SaveBlock(g, g.MakePartSet(types.DefaultConsensusParams().BlockGossip.BlockPartSizeBytes), nil, nil, &types.TxsResult{})
		}
		bs := blockchain.NewBlockStore(d.block)
		cross := txmgr.NewCrossState(d.cross, bs)
		bs.SetCrossState(cross)
		us := utxo.NewUtxoStore(d.u1, d.u2, d.u3)
		us.SetLogger(log.NewNopLogger())
		a, err := NewLinkApplication(d.state, bs, us, cross, types.NewEventBus(), false, blockchain.NewBalanceRecordStore(d.br, false), nil, nil)
		if err != nil {
			t.Fatalf("%s: %v", name, err)
		}
		mp := &c05xMempool{cache: map[common.Hash]types.Tx{}}
		a.SetMempool(mp)
		a.SetLastChangedVals(0, nil)
		if os.Getenv("VERIF_DEBUG") != "" {
			a.SetLogger(log.Root())
		}
		return &c05xNode{name, d, a, mp}
	}
	fund := func(n *c05xNode) {
		funds := new(big.Int).Mul(one, big.NewInt(1000))
		for _, st := range []interface {
			AddBalance(common.Address, *big.Int)
		}{n.app.storeState, n.app.checkTxState} {
			st.AddBalance(addrA, funds)
			st.AddBalance(addrB, new(big.Int).Mul(one, big.NewInt(10)))
		}
	}
	nfail, cases := 0, 0
	fail := func(format string, a ...interface{}) {
		nfail++
		if nfail <= 8 {
			fmt.Printf("BOUNDED-FAIL: "+format+"\n", a...)
		}
	}
	commit := func(n *c05xNode, b *types.Block) {
		parts := b.MakePartSet(types.DefaultConsensusParams().BlockGossip.BlockPartSizeBytes)
		if _, err := n.app.CommitBlock(b, parts, &types.Commit{}, false); err != nil {
			fail("%s: CommitBlock(%d): %v", n.name, b.Height, err)
		}
	}
	digest := func(n *c05xNode) string {
		st := n.app.storeState
		s := fmt.Sprintf("h=%d", n.app.blockChain.Height())
		for _, a := range []common.Address{addrA, addrB, fresh1, fresh2, contractAddr} {
			s += fmt.Sprintf(" %x:%v/%d/%d", a[:2], st.GetBalance(a), st.GetNonce(a), len(st.GetCode(a)))
		}
		s += fmt.Sprintf(" slot0=%x", st.GetState(contractAddr, common.Hash{}))
		for h := uint64(1); h <= n.app.blockChain.Height(); h++ {
			if rc := n.app.blockChain.GetReceipts(h); rc != nil {
				s += fmt.Sprintf(" r%d=%x", h, rc.Hash().Bytes()[:4])
			}
		}
		return s
	}

	// the proposer
	p := open("proposer", nil)
	fund(p)
	propose := func(height uint64, txs types.Txs, time uint64) *types.Block {
		p.mp.txs = txs
		b := p.app.CreateBlock(height, 100, 1e9, time)
		if b == nil {
			t.Fatalf("CreateBlock(%d) nil", height)
		}
		b.LastCommit = &types.Commit{}
		p.app.PreRunBlock(b)
		// as in consensus: the object handed to PreRunBlock is cut into parts and discarded (its cached hash
		// predates the execution results written into its header); everybody works on the decoded block
		bz, _ := ser.EncodeToBytes(b)
		nb := new(types.Block)
		if err := ser.DecodeBytes(bz, nb); err != nil {
			t.Fatalf("block round trip: %v", err)
		}
		return nb
	}
	b1 := propose(1, block1, 1507737700)
	if !p.app.CheckBlock(b1) {
		fail("the proposer refuses its own block 1")
	}
	commit(p, b1)
	b2 := propose(2, block2, 1507737710)
	if !p.app.CheckBlock(b2) {
		fail("the proposer refuses its own block 2")
	}
	commit(p, b2)
	want := digest(p)

	variants := []string{"validator, transactions unseen", "validator, transactions in its mempool cache", "validator, every block checked twice", "validator, restarted between the blocks"}
	for _, v := range variants {
		n := open(v, nil)
		fund(n)
		if v == variants[1] {
			for _, tx := range append(append(types.Txs{}, block1...), block2...) {
				// the mempool keeps its own decoded copy with the sender already recovered
				cp := *(tx.(*types.Transaction))
				cp.From()
				n.mp.cache[tx.Hash()] = &cp
			}
		}
		for i, b := range []*types.Block{b1, b2} {
			// the block as it arrives from the wire: its own decoded copy
			bz, _ := ser.EncodeToBytes(b)
			nb := new(types.Block)
			if err := ser.DecodeBytes(bz, nb); err != nil {
				t.Fatalf("block round trip: %v", err)
			}
			cases++
			if !n.app.CheckBlock(nb) {
				fail("%s: block %d proposed by a correct node is refused", v, b.Height)
				break
			}
			if v == variants[2] && !n.app.CheckBlock(nb) {
				fail("%s: block %d refused on the second check", v, b.Height)
			}
			commit(n, nb)
			if v == variants[3] && i == 0 {
				n = open(v, n.disk)
			}
		}
		if got := digest(n); got != want {
			fail("%s ends with\n   %s\nthe proposer with\n   %s", v, got, want)
		}
	}
	// The verdict on a block must not depend on what a validator's mempool cache holds: the sender of a plain transfer
	// is put on the (shared) blacklist while its transaction sits in the proposer's pool - the proposer path does not
	// consult the blacklist, the validator path does - and two validators with the same committed state, one holding
	// the transaction in its mempool cache, one not, must give the same answer.
	{
		v1, v2 := open("validator without the transaction", nil), open("validator with the transaction cached", nil)
		for _, n := range []*c05xNode{v1, v2} {
			fund(n)
			for _, b := range []*types.Block{b1, b2} {
				bz, _ := ser.EncodeToBytes(b)
				nb := new(types.Block)
				ser.DecodeBytes(bz, nb)
				if !n.app.CheckBlock(nb) {
					fail("blacklist scenario: block %d refused", b.Height)
				}
				commit(n, nb)
			}
		}
		txBad := sign(types.NewTransaction(2, fresh2, one, fee(one), gp, nil), "B")
		b3 := propose(3, types.Txs{txBad}, 1507737720)
		types.BlacklistInstance.Init(dbm.NewMemDB())
		types.BlacklistInstance.DealBlackAddrsChanges([]byte(`{"ret":"addBlackAddress` + addrB.Hex() + `"}`))
		if err := types.BlacklistInstance.UpdateBlacklist(); err != nil || !types.BlacklistInstance.IsBlackAddress(addrB) {
			fail("blacklist scenario: could not blacklist the sender (%v)", err)
		}
		cp := *txBad
		cp.From()
		v2.mp.cache[txBad.Hash()] = &cp
		var verdict [2]bool
		for i, n := range []*c05xNode{v1, v2} {
			bz, _ := ser.EncodeToBytes(b3)
			nb := new(types.Block)
			ser.DecodeBytes(bz, nb)
			cases++
			verdict[i] = n.app.CheckBlock(nb)
		}
		if verdict[0] != verdict[1] {
			fail("a block with a transfer of a blacklisted sender: the validator that never saw the transaction says %v, the validator that has it in its mempool cache says %v", verdict[0], verdict[1])
		}
		if verdict[0] {
			fail("a block with a transfer of a blacklisted sender is accepted by a validator")
		}
		types.BlacklistInstance.Init(dbm.NewMemDB())
	}
	fmt.Printf("BOUNDED-CASES: %d block checks (2 blocks, 7 transactions: transfers, contract creation, contract call, insufficient funds; proposer + %d kinds of validator; one block of a blacklisted sender with and without the mempool cache), %d failures\n", cases, len(variants), nfail)
	if nfail > 0 {
		t.Fatalf("%d failures", nfail)
	}
}
