package wasm

// Bounded stand-in for C05 (labelled bounded, never counted as proved): the same contract call on the same
// committed state, executed by processes with different histories. "Process history" is what the process
// executed before on states that were thrown away: a creation that failed, a creation inside a block that was
// never committed (or a simulation), nothing at all (a node that was restarted). The result - gas, error,
// state root - must not depend on it. The class "compiled code outlives the state it was compiled from" is a
// listed known finding (VERIF_KNOWN contains compiled-code-outlives-state): counted and reported as
// KNOWN-FINDING; every other difference fails. Control cases (callee present in the committed state; the same
// call twice in one process) must agree in every history.

import (
	"fmt"
	"io/ioutil"
	"math/big"
	"os"
	"strings"
	"testing"

	"github.com/lianxiangcloud/linkchain/libs/common"
	"github.com/lianxiangcloud/linkchain/libs/crypto"
	"github.com/lianxiangcloud/linkchain/libs/db"
	"github.com/lianxiangcloud/linkchain/libs/log"
	"github.com/lianxiangcloud/linkchain/state"
	"github.com/xunleichain/tc-wasm/vm"
)

func TestBoundedC05(t *testing.T) {
	known := os.Getenv("VERIF_KNOWN")
	callerCode, err := ioutil.ReadFile("./wasm-run/callWithValue.wasm")
	if err != nil {
		t.Fatalf("fixture: %v", err)
	}
	calleeCode, err := ioutil.ReadFile("./wasm-run/callTransfer.wasm")
	if err != nil {
		t.Fatalf("fixture: %v", err)
	}
	user := common.BytesToAddress([]byte{1})
	callerAddr := common.BytesToAddress([]byte{0x71})
	calleeAddr := crypto.CreateAddress(user, 0, calleeCode) // where a creation of calleeCode by user lands

	committed := func(withCallee bool) *state.StateDB {
		st, _ := state.New(common.EmptyHash, state.NewDatabase(db.NewMemDB()))
		st.AddBalance(user, big.NewInt(10000))
		st.AddBalance(callerAddr, big.NewInt(10000))
		st.SetCode(callerAddr, callerCode)
		if withCallee {
			st.SetCode(calleeAddr, calleeCode)
		}
		return st
	}
	ctx := Context{CanTransfer: CanTransfer, Transfer: Transfer, UnsafeTransfer: UnsafeTransfer, WasmGasRate: 1,
		Time: new(big.Int).SetUint64(1565078742), BlockNumber: big.NewInt(3456), Token: common.EmptyAddress}
	type outcome struct {
		gas  uint64
		err  string
		root common.Hash
	}
	exec := func(st *state.StateDB) outcome {
		contract := vm.NewContract(user.Bytes(), callerAddr.Bytes(), big.NewInt(0), 0)
		contract.SetCallCode(callerAddr.Bytes(), nil, nil)
		eng := vm.NewEngine(contract, 100000000, st, log.NewNopLogger())
		eng.Ctx = NewWASM(ctx, st, nil)
		app, err := eng.NewApp(callerAddr.String(), nil, false)
		if err != nil {
			t.Fatalf("caller does not load: %v", err)
		}
		input := []byte(`GiveHerNothing|{"0":"` + calleeAddr.String() + `","1":"hello"}`)
		eng.Contract.Input = input
		_, rerr := eng.Run(app, input)
		return outcome{eng.GasUsed(), fmt.Sprint(rerr), st.IntermediateRoot(false)}
	}
	restart := func() { // a fresh process has compiled nothing
		vm.AppCache.Delete(calleeAddr.String())
		vm.AppCache.Delete(callerAddr.String())
	}
	histories := []struct {
		name string
		run  func()
	}{
		{"restarted node (nothing executed before)", func() {}},
		{"a creation of the callee failed in an earlier block (code storage out of gas, reverted)", func() {
			st := committed(false)
			_, _, _, cerr := NewWASM(ctx, st, nil).Create(AccountRef(user), calleeCode, 200000, big.NewInt(0))
			if cerr == nil || len(st.GetCode(calleeAddr)) != 0 {
				t.Fatalf("the creation was meant to fail and leave no code (err %v)", cerr)
			}
		}},
		{"a creation of the callee succeeded in a block that was never committed (state discarded)", func() {
			st := committed(false)
			if _, _, _, cerr := NewWASM(ctx, st, nil).Create(AccountRef(user), calleeCode, 100000000, big.NewInt(0)); cerr != nil {
				t.Fatalf("creation: %v", cerr)
			}
		}},
	}
	nfail, cases, knownN := 0, 0, 0
	first := ""
	for _, withCallee := range []bool{false, true} {
		var ref outcome
		for i, h := range histories {
			restart()
			h.run()
			a := exec(committed(withCallee))
			b := exec(committed(withCallee)) // the same call again in the same process
			cases += 2
			if a != b {
				nfail++
				fmt.Printf("BOUNDED-FAIL: callee in state=%v, history %q: two runs in one process differ: %+v / %+v\n", withCallee, h.name, a, b)
			}
			if i == 0 {
				ref = a
				continue
			}
			if a != ref {
				if !withCallee && strings.Contains(known, "compiled-code-outlives-state") {
					knownN++
					if first == "" {
						first = fmt.Sprintf("history %q: gas %d err %s; restarted node: gas %d err %s", h.name, a.gas, a.err, ref.gas, ref.err)
					}
				} else {
					nfail++
					fmt.Printf("BOUNDED-FAIL: callee in state=%v: history %q gives gas %d err %s root %x; a restarted node gives gas %d err %s root %x\n",
						withCallee, h.name, a.gas, a.err, a.root[:4], ref.gas, ref.err, ref.root[:4])
				}
			}
		}
	}
	restart()
	if knownN > 0 {
		fmt.Printf("KNOWN-FINDING: property=C05 the engine's process-wide cache of compiled contracts is keyed by address and is not tied to the state: a call to an address that has no code in the committed state executes code this process compiled earlier for that address in a discarded state (%d of the enumerated histories differ from a restarted node; first: %s)\n", knownN, first)
	}
	fmt.Printf("BOUNDED-CASES: %d executions (one inner contract call on a committed state with and without the callee, after %d process histories, each twice), %d failures\n", cases, len(histories), nfail)
	if nfail > 0 {
		t.Fatalf("%d failures", nfail)
	}
}
