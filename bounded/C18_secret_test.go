package conn

// Bounded stand-in for C18 (labelled bounded, never counted as proved): two real SecretConnections over an in-memory
// duplex pipe whose two directions pass through a tap that can alter, drop, duplicate or reorder the raw frames.
//  stream   seeded random write sizes (0..70000 bytes, across the 32 KiB chunk boundary and its neighbours) on one
//           side, seeded random read buffer sizes (1..70000) on the other, both directions at once: the bytes read
//           are exactly the bytes written, in order;
//  tamper   one bit of one handshake frame is altered in transit: the handshake fails, or completes with both sides
//           seeing the other's real key (data frames are compressed, not sealed, in the compiled-in mode: C18 does
//           not claim protection of data against an active attacker);
//  auth     the handshake ends with the peer's real public key on both sides; a man in the middle that runs its own
//           handshake with each side is seen by both sides under its own key, never under the other peer's.

import (
	"bytes"
	"fmt"
	"io"
	"math/rand"
	"os"
	"sync"
	"testing"
	"time"

	"github.com/lianxiangcloud/linkchain/libs/crypto"
)

// a one-directional byte channel with a tap on whole writes (the secret connection writes one frame per Write)
type b18Link struct {
	mu   sync.Mutex
	cond *sync.Cond
	q    [][]byte // written frames not yet read; a Read is served from the head frame only (as with io.Pipe, which the
	// package's own tests use: the handshake decodes each message with a fresh buffering reader and would lose bytes
	// of a following message that arrived in the same read)
	closed bool
	n      int // frames seen
	tap    func(n int, frame []byte) [][]byte
}

func newB18Link() *b18Link { l := &b18Link{}; l.cond = sync.NewCond(&l.mu); return l }
func (l *b18Link) Write(p []byte) (int, error) {
	l.mu.Lock()
	defer l.mu.Unlock()
	if l.closed {
		return 0, io.ErrClosedPipe
	}
	frames := [][]byte{append([]byte(nil), p...)}
	if l.tap != nil {
		frames = l.tap(l.n, frames[0])
	}
	l.n++
	for _, f := range frames {
		if len(f) > 0 {
			l.q = append(l.q, f)
		}
	}
	l.cond.Broadcast()
	return len(p), nil
}
func (l *b18Link) Read(p []byte) (int, error) {
	l.mu.Lock()
	defer l.mu.Unlock()
	for len(l.q) == 0 && !l.closed {
		l.cond.Wait()
	}
	if len(l.q) == 0 {
		return 0, io.EOF
	}
	n := copy(p, l.q[0])
	if l.q[0] = l.q[0][n:]; len(l.q[0]) == 0 {
		l.q = l.q[1:]
	}
	return n, nil
}
func (l *b18Link) Close() error {
	l.mu.Lock()
	l.closed = true
	l.cond.Broadcast()
	l.mu.Unlock()
	return nil
}

type b18End struct{ r, w *b18Link }

func (e b18End) Read(p []byte) (int, error)  { return e.r.Read(p) }
func (e b18End) Write(p []byte) (int, error) { return e.w.Write(p) }
func (e b18End) Close() error                { e.r.Close(); return e.w.Close() }

func b18Pair() (a, b b18End, ab, ba *b18Link) {
	ab, ba = newB18Link(), newB18Link()
	return b18End{ba, ab}, b18End{ab, ba}, ab, ba
}

func b18Handshake(a, b io.ReadWriteCloser, ka, kb crypto.PrivKey) (sa, sb *SecretConnection, ea, eb error) {
	var wg sync.WaitGroup
	wg.Add(2)
	go func() { defer wg.Done(); sa, ea = MakeSecretConnection(a, ka) }()
	go func() { defer wg.Done(); sb, eb = MakeSecretConnection(b, kb) }()
	wg.Wait()
	return
}

func TestBoundedC18(t *testing.T) {
	seed := int64(1)
	fmt.Sscan(os.Getenv("VERIF_SEED"), &seed)
	rounds := 25
	if os.Getenv("VERIF_TIER") == "thorough" {
		rounds = 400
	}
	rng := rand.New(rand.NewSource(seed))
	nfail, cases := 0, 0
	fail := func(format string, a ...interface{}) {
		nfail++
		if nfail <= 6 {
			fmt.Printf("BOUNDED-FAIL: "+format+"\n", a...)
		}
	}
	sizes := []int{0, 1, 2, 1023, 1024, 1025, 32767, 32768, 32769, 65535, 65536, 65537, 70000}
	size := func() int {
		if rng.Intn(3) == 0 {
			return sizes[rng.Intn(len(sizes))]
		}
		return rng.Intn(3000)
	}
	// ---- stream
	for r := 0; r < rounds; r++ {
		ka, kb := crypto.GenPrivKeyEd25519(), crypto.GenPrivKeyEd25519()
		a, b, _, _ := b18Pair()
		sa, sb, ea, eb := b18Handshake(a, b, ka, kb)
		cases++
		if ea != nil || eb != nil {
			fail("handshake: %v / %v", ea, eb)
			continue
		}
		if !sa.RemotePubKey().Equals(kb.PubKey()) || !sb.RemotePubKey().Equals(ka.PubKey()) {
			fail("handshake: a side does not see the other's real key")
		}
		var wg sync.WaitGroup
		oneWay := func(w, rd *SecretConnection, sd int64) {
			defer wg.Done()
			lr := rand.New(rand.NewSource(sd))
			var sent []byte
			nw := 3 + lr.Intn(8)
			var wsizes []int
			for i := 0; i < nw; i++ {
				n := size()
				wsizes = append(wsizes, n)
				chunk := make([]byte, n)
				lr.Read(chunk)
				sent = append(sent, chunk...)
			}
			done := make(chan error, 1)
			go func() {
				off := 0
				for _, n := range wsizes {
					if m, err := w.Write(sent[off : off+n]); err != nil || m != n {
						done <- fmt.Errorf("Write(%d) = %d, %v", n, m, err)
						return
					}
					off += n
				}
				done <- nil
			}()
			var got []byte
			for len(got) < len(sent) {
				rs := []int{1, 2, 3, 511, 1022, 1023, 1024, 1025, 2047, 2048, 1 + lr.Intn(2000), 1 + lr.Intn(2000), 1 + lr.Intn(70000)}
				buf := make([]byte, rs[lr.Intn(len(rs))])
				n, err := rd.Read(buf)
				if err != nil {
					fail("stream: Read fails after %d of %d bytes: %v", len(got), len(sent), err)
					return
				}
				got = append(got, buf[:n]...)
			}
			if err := <-done; err != nil {
				fail("stream: %v", err)
			}
			if !bytes.Equal(got, sent) {
				fail("stream: the bytes read differ from the bytes written (write sizes %v)", wsizes)
			}
		}
		wg.Add(2)
		cases += 2
		go oneWay(sa, sb, rng.Int63())
		go oneWay(sb, sa, rng.Int63())
		finished := make(chan struct{})
		go func() { wg.Wait(); close(finished) }()
		select {
		case <-finished:
		case <-time.After(20 * time.Second): // everything was written long ago: a reader still waiting has lost bytes
			fail("stream: a reader is still waiting for bytes 20 s after they were written (bytes lost on the way)")
			a.Close()
			b.Close()
			<-finished
		}
		a.Close()
		b.Close()
	}
	// ---- read sizes aimed at frame boundaries: one write of n bytes (one frame up to 32 KiB), read back as k bytes, then
	// all but one of what is left of the frame, then the rest
	{
		ka, kb := crypto.GenPrivKeyEd25519(), crypto.GenPrivKeyEd25519()
		a, b, _, _ := b18Pair()
		sa, sb, ea, eb := b18Handshake(a, b, ka, kb)
		if ea != nil || eb != nil {
			fail("handshake: %v / %v", ea, eb)
		} else {
			for _, n := range []int{2, 3, 10, 1023, 1024, 1025, 4000, 32767, 32768} {
				for _, k := range []int{0, 1, n / 2, n - 2} {
					if k < 0 || k > n-2 {
						continue
					}
					msg := make([]byte, n)
					rng.Read(msg)
					go sa.Write(msg)
					var got []byte
					result := make(chan bool, 1)
					go func() {
						for _, want := range []int{k, n - k - 1, 1} {
							for want > 0 {
								buf := make([]byte, want)
								m, err := sb.Read(buf)
								if err != nil {
									result <- false
									return
								}
								got = append(got, buf[:m]...)
								want -= m
							}
						}
						result <- true
					}()
					cases++
					select {
					case ok := <-result:
						if !ok || !bytes.Equal(got, msg) {
							fail("edge: %d bytes written, read as %d + %d + 1: the bytes read differ from the bytes written", n, k, n-k-1)
						}
					case <-time.After(10 * time.Second):
						fail("edge: %d bytes written, read as %d + %d + 1: the last bytes never arrive", n, k, n-k-1)
						a.Close()
						b.Close()
						<-result
					}
					if nfail > 0 {
						break
					}
				}
				if nfail > 0 {
					break
				}
			}
		}
		a.Close()
		b.Close()
	}
	// ---- tamper with the handshake: one bit of one handshake frame altered in transit (either direction). The frame
	// mode of this build compresses and does not seal, so data frames are not protected against an active attacker and
	// C18 does not say they are; the handshake is what authenticates. Outcome allowed: the handshake fails on at least
	// one side, or it completes with both sides seeing the other's real key (the altered bit was immaterial).
	for r := 0; r < rounds*4; r++ {
		ka, kb := crypto.GenPrivKeyEd25519(), crypto.GenPrivKeyEd25519()
		a, b, ab, ba := b18Pair()
		link := []*b18Link{ab, ba}[rng.Intn(2)]
		target := rng.Intn(3)
		link.tap = func(n int, f []byte) [][]byte {
			if n == target && len(f) > 0 {
				f[rng.Intn(len(f))] ^= byte(1 << uint(rng.Intn(8)))
			}
			return [][]byte{f}
		}
		done := make(chan struct{})
		var sa, sb *SecretConnection
		var ea, eb error
		go func() { sa, sb, ea, eb = b18Handshake(a, b, ka, kb); close(done) }()
		select {
		case <-done:
		case <-time.After(3 * time.Second): // one side gave up, the other waits for a message that will not come
			a.Close()
			b.Close()
			<-done
		}
		cases++
		if ea == nil && sa != nil && !sa.RemotePubKey().Equals(kb.PubKey()) {
			fail("handshake tampering: side A completed and sees a key that is not the peer's")
		}
		if eb == nil && sb != nil && !sb.RemotePubKey().Equals(ka.PubKey()) {
			fail("handshake tampering: side B completed and sees a key that is not the peer's")
		}
		a.Close()
		b.Close()
	}
	// ---- a man in the middle with its own keys
	for r := 0; r < rounds/5+1; r++ {
		ka, kb, km := crypto.GenPrivKeyEd25519(), crypto.GenPrivKeyEd25519(), crypto.GenPrivKeyEd25519()
		a, m1, _, _ := b18Pair()
		m2, b, _, _ := b18Pair()
		var sa, sb *SecretConnection
		var wg sync.WaitGroup
		wg.Add(4)
		go func() { defer wg.Done(); sa, _ = MakeSecretConnection(a, ka) }()
		go func() { defer wg.Done(); MakeSecretConnection(m1, km) }()
		go func() { defer wg.Done(); MakeSecretConnection(m2, km) }()
		go func() { defer wg.Done(); sb, _ = MakeSecretConnection(b, kb) }()
		wg.Wait()
		cases++
		if sa != nil && sa.RemotePubKey().Equals(kb.PubKey()) || sb != nil && sb.RemotePubKey().Equals(ka.PubKey()) {
			fail("a man in the middle is taken for the real peer")
		}
	}
	fmt.Printf("BOUNDED-CASES: %d cases (%d connection pairs streaming both ways with seeded write and read sizes; %d handshakes with one bit altered in transit; man-in-the-middle handshakes), %d failures\n", cases, rounds, rounds*4, nfail)
	if nfail > 0 {
		t.Fatalf("%d failures", nfail)
	}
}
