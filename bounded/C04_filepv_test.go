package types

// Bounded stand-in for C04 (labelled bounded, never counted as proved): a real FilePV on a real key file, driven by
// seeded random histories of signing requests - votes of both types and proposals at heights/rounds around the
// last signed one (lower, equal, higher), with the same or a different block, with only the timestamp changed -
// interleaved with restarts (the signer is dropped and re-loaded from its file) and with write failures (the key
// file's directory disappears for one request; a request during which the file cannot be written must not
// release a signature). Every signature handed out is checked against the key and recorded. Over the whole
// history, restarts included: for one (height, round, step) all signed payloads are the same up to the timestamp;
// after a signature for (h, r, s) none is handed out for a lower (h, r, s). SignVoteWithoutSave is not part of the
// histories (listed known findings of this property; no caller in the repository).

import (
	"bytes"
	"fmt"
	"io/ioutil"
	"math/rand"
	"os"
	"path/filepath"
	"testing"
	"time"

	"github.com/lianxiangcloud/linkchain/libs/common"
)

func TestBoundedC04(t *testing.T) {
	seed := int64(1)
	fmt.Sscan(os.Getenv("VERIF_SEED"), &seed)
	histories, nops := 60, 60
	if os.Getenv("VERIF_TIER") == "thorough" {
		histories, nops = 1200, 80
	}
	const chain = "verif-c04"
	nfail, cases := 0, 0
	fail := func(format string, a ...interface{}) {
		nfail++
		if nfail <= 6 {
			fmt.Printf("BOUNDED-FAIL: "+format+"\n", a...)
		}
	}
	type hrs struct {
		h uint64
		r int
		s int8
	}
	less := func(a, b hrs) bool {
		return a.h < b.h || (a.h == b.h && (a.r < b.r || (a.r == b.r && a.s < b.s)))
	}
	var blocks [3]BlockID
	for i := range blocks {
		var h common.Hash
		h[0] = byte(i + 1)
		blocks[i] = BlockID{Hash: h, PartsHeader: PartSetHeader{Total: 1, Hash: []byte{byte(i + 1)}}}
	}
	for hi := 0; hi < histories && nfail == 0; hi++ {
		rng := rand.New(rand.NewSource(seed*15485863 + int64(hi)))
		dir, err := ioutil.TempDir("", "verifc04")
		if err != nil {
			t.Fatal(err)
		}
		path := filepath.Join(dir, "keys", "priv_validator.json")
		os.MkdirAll(filepath.Dir(path), 0700)
		pv := GenFilePV(path)
		pv.Save()
		pub := pv.GetPubKey()
		signed := map[hrs][]byte{} // canonical payload (without timestamp) signed for each slot
		var high hrs
		any := false
		var trace []string
		cur := hrs{1, 0, 1}
		for op := 0; op < nops && nfail == 0; op++ {
			if rng.Intn(7) == 0 { // restart
				pv = LoadFilePV(path)
				trace = append(trace, "restart")
				continue
			}
			// a slot around the current one
			req := cur
			switch rng.Intn(7) {
			case 6:
				req.s = int8(1 + rng.Intn(3)) // any step of the same round
			case 0:
				req.h++
				req.r, req.s = 0, 1
			case 1:
				req.r++
				req.s = int8(1 + rng.Intn(3))
			case 2:
				if req.s < 3 {
					req.s++
				}
			case 3:
				if req.r > 0 {
					req.r--
				}
			case 4:
				if req.h > 1 {
					req.h--
				}
			}
			blk := blocks[rng.Intn(len(blocks))]
			ts := time.Unix(1500000000+int64(rng.Intn(5)), 0).UTC()
			breakDisk := rng.Intn(9) == 0
			if breakDisk { // the directory of the key file disappears for the duration of this request
				os.Rename(filepath.Dir(path), filepath.Dir(path)+".off")
			}
			var payloadNoTS, sig []byte
			var serr error
			var full []byte
			func() {
				defer func() {
					if r := recover(); r != nil {
						serr = fmt.Errorf("panic: %v", r) // save() panics when the file cannot be written: no signature is released
					}
				}()
				if req.s == 1 {
					pol := -1
					if req.r > 0 && rng.Intn(2) == 0 {
						pol = rng.Intn(req.r)
					}
					p := NewProposal(req.h, req.r, blk.PartsHeader, pol, BlockID{})
					p.Timestamp = ts
					serr = pv.SignProposal(chain, p)
					if serr == nil {
						full = p.SignBytes(chain)
						sig = p.Signature.Bytes()
						q := *p
						q.Timestamp = time.Unix(0, 0).UTC()
						q.Signature = nil
						payloadNoTS = q.SignBytes(chain)
					}
				} else {
					typ := VoteTypePrevote
					if req.s == 3 {
						typ = VoteTypePrecommit
					}
					v := &Vote{ValidatorAddress: pv.GetAddress(), ValidatorIndex: 0, ValidatorSize: 4, Height: req.h, Round: req.r, Timestamp: ts, Type: typ, BlockID: blk}
					serr = pv.SignVote(chain, v)
					if serr == nil {
						full = v.SignBytes(chain)
						sig = v.Signature.Bytes()
						q := *v
						q.Timestamp = time.Unix(0, 0).UTC()
						q.Signature = nil
						payloadNoTS = q.SignBytes(chain)
					}
				}
			}()
			if breakDisk {
				os.Rename(filepath.Dir(path)+".off", filepath.Dir(path))
			}
			trace = append(trace, fmt.Sprintf("%d/%d/%d b%x ts%d disk=%v -> %v", req.h, req.r, req.s, blk.Hash[0], ts.Unix()%10, !breakDisk, serr == nil))
			if len(trace) > 40 {
				trace = trace[len(trace)-40:]
			}
			cases++
			if serr != nil {
				if breakDisk { // the in-memory signer may have moved on although nothing was written: what a crash here would leave
					pv = LoadFilePV(path)
				}
				continue
			}
			if prev, ok := signed[req]; breakDisk && !(ok && bytes.Equal(prev, payloadNoTS)) {
				// (a repeated request for what is already on record needs no write: the recorded signature is handed back)
				fail("history %d: a signature for a payload not yet on record was released while the key file could not be written\n   trace: %v", hi, trace)
			}
			_ = full
			_ = sig
			_ = pub
			if any && less(req, high) {
				fail("history %d: a signature for %d/%d/%d was released after one for %d/%d/%d\n   trace: %v", hi, req.h, req.r, req.s, high.h, high.r, high.s, trace)
			}
			if prev, ok := signed[req]; ok && !bytes.Equal(prev, payloadNoTS) {
				fail("history %d: two different payloads were signed for %d/%d/%d\n   %s\n   %s\n   trace: %v", hi, req.h, req.r, req.s, prev, payloadNoTS, trace)
			}
			signed[req] = payloadNoTS
			if !any || less(high, req) {
				high = req
			}
			any = true
			cur = req
		}
		os.RemoveAll(dir)
	}
	note := ""
	fmt.Printf("BOUNDED-CASES: %d signing requests (%d seeded histories of up to %d operations with restarts and write failures%s), %d failures\n", cases, histories, nops, note, nfail)
	if nfail > 0 {
		t.Fatalf("%d failures", nfail)
	}
}
