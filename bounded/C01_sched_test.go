package consensus

// Bounded stand-in for C01 (labelled bounded, never counted as proved): three correct validators run the real
// ConsensusState (handleMsg / handleTimeout driven synchronously, the real timeout-ticker replacement rule), the
// fourth validator (1/4 of the power, below one third) is Byzantine and is played by the scheduler. A seeded random
// schedule chooses, step by step: deliver a pending message of a correct node to another correct node (any
// order, possibly twice, possibly never), fire the armed timeout of a node, or let the Byzantine validator sign and
// show to a random subset of the correct nodes: a prevote or precommit for any block seen so far or nil in any
// round up to the highest round any node is in (equivocation), or - where it is the proposer - a proposal for a
// fresh block, for an older block, or two different proposals to different nodes. Height 1 only.
// Checked after every step:
//   agreement    no two correct nodes have committed different blocks;
//   once         a correct node emits at most one prevote and one precommit per round;
//   polka        a correct node precommits a block only when its own vote set for that round holds +2/3 prevotes
//                for that block;
//   lock         a correct node that holds a lock prevotes the locked block.

import (
	"bytes"
	"fmt"
	"math/rand"
	"os"
	"testing"
	"time"

	cfg "github.com/lianxiangcloud/linkchain/config"
	dbm "github.com/lianxiangcloud/linkchain/libs/db"
	"github.com/lianxiangcloud/linkchain/libs/log"
	"github.com/lianxiangcloud/linkchain/types"
)

const b01Chain = "verif-c01"

type b01App struct {
	id, created int
	height      uint64
	committed   []*types.Block
}

func (a *b01App) Height() uint64                                 { return a.height }
func (a *b01App) LoadBlockMeta(uint64) *types.BlockMeta          { return nil }
func (a *b01App) LoadBlock(uint64) *types.Block                  { return nil }
func (a *b01App) LoadBlockPart(uint64, int) *types.Part          { return nil }
func (a *b01App) LoadBlockCommit(uint64) *types.Commit           { return nil }
func (a *b01App) LoadSeenCommit(uint64) *types.Commit            { return nil }
func (a *b01App) GetValidators(uint64) []*types.Validator        { return nil }
func (a *b01App) GetRecoverValidators(uint64) []*types.Validator { return nil }
func (a *b01App) PreRunBlock(*types.Block)                       {}
func (a *b01App) CheckBlock(*types.Block) bool                   { return true }
func (a *b01App) SetLastChangedVals(uint64, []*types.Validator)  {}
func (a *b01App) CreateBlock(height uint64, maxTxs int, gasLimit uint64, timeUnix uint64) *types.Block {
	a.created++
	b := types.MakeBlock(height, nil, &types.Commit{})
	b.Header.Time = uint64(1000000*(a.id+1) + a.created) // every created block distinct and deterministic
	b.DataHash = b.Data.Hash()
	return b
}
func (a *b01App) CommitBlock(b *types.Block, ps *types.PartSet, c *types.Commit, fastsync bool) ([]*types.Validator, error) {
	a.committed = append(a.committed, b)
	a.height = b.Height
	return nil, nil
}

// keeps only the timeout the real ticker would keep armed (same replacement rule as timeoutTicker.timeoutRoutine)
type b01Ticker struct {
	armed *timeoutInfo
	c     chan timeoutInfo
}

func (t *b01Ticker) Start() error             { return nil }
func (t *b01Ticker) Stop() error              { return nil }
func (t *b01Ticker) Reset() error             { return nil }
func (t *b01Ticker) Chan() <-chan timeoutInfo { return t.c }
func (t *b01Ticker) SetLogger(log.Logger)     {}
func (t *b01Ticker) ScheduleTimeout(ti timeoutInfo) {
	if old := t.armed; old != nil {
		if ti.Height < old.Height {
			return
		} else if ti.Height == old.Height {
			if ti.Round < old.Round {
				return
			} else if ti.Round == old.Round && old.Step > 0 && ti.Step <= old.Step {
				return
			}
		}
	}
	c := ti
	t.armed = &c
}

type b01Node struct {
	name string
	cs   *ConsensusState
	app  *b01App
	tick *b01Ticker
	out  []ConsensusMessage
	// what it emitted at height 1, per round and type
	emitted  map[[2]int][]types.BlockID
	problems []string
}

func (n *b01Node) drain() {
	for {
		select {
		case mi := <-n.cs.internalMsgQueue:
			if vm, ok := mi.Msg.(*VoteMessage); ok && vm.Vote.Height == 1 {
				v := vm.Vote
				k := [2]int{v.Round, int(v.Type)}
				n.emitted[k] = append(n.emitted[k], v.BlockID)
				if len(n.emitted[k]) > 1 {
					n.problems = append(n.problems, fmt.Sprintf("%s emits a second vote of type %d in round %d (%v then %v)", n.name, v.Type, v.Round, n.emitted[k][0], v.BlockID))
				}
				if n.cs.Height == 1 {
					if v.Type == types.VoteTypePrecommit && !v.BlockID.IsZero() {
						pv := n.cs.Votes.Prevotes(v.Round)
						if pv == nil {
							n.problems = append(n.problems, fmt.Sprintf("%s precommits a block in round %d without any prevotes of that round", n.name, v.Round))
						} else if maj, ok := pv.TwoThirdsMajority(); !ok || !maj.Equals(v.BlockID) {
							n.problems = append(n.problems, fmt.Sprintf("%s precommits %X in round %d but its prevotes of that round hold no +2/3 for it (majority %v %v)", n.name, v.BlockID.Hash.Bytes()[:4], v.Round, maj, ok))
						}
					}
					if v.Type == types.VoteTypePrevote && n.cs.LockedBlock != nil && !bytes.Equal(v.BlockID.Hash.Bytes(), n.cs.LockedBlock.Hash().Bytes()) {
						n.problems = append(n.problems, fmt.Sprintf("%s holds a lock on %X (round %d) and prevotes %v in round %d", n.name, n.cs.LockedBlock.Hash().Bytes()[:4], n.cs.LockedRound, v.BlockID, v.Round))
					}
				}
			}
			n.out = append(n.out, mi.Msg)
			n.cs.handleMsg(mi)
		default:
			return
		}
	}
}

func TestBoundedC01(t *testing.T) {
	seed := int64(1)
	fmt.Sscan(os.Getenv("VERIF_SEED"), &seed)
	schedules, steps := 150, 300
	if os.Getenv("VERIF_TIER") == "thorough" {
		schedules, steps = 6000, 400
	}
	old := log.Root().GetHandler()
	log.Root().SetHandler(log.DiscardHandler())
	defer log.Root().SetHandler(old)
	nop := log.NewNopLogger()

	nfail, cases := 0, 0
	commits, locks, topRound := 0, 0, 0
	for sc := 0; sc < schedules && nfail == 0; sc++ {
		rng := rand.New(rand.NewSource(seed*104729 + int64(sc)))
		pvs := make([]types.PrivValidator, 4)
		gvals := make([]types.GenesisValidator, 4)
		for i := range pvs {
			pvs[i] = types.NewMockPV()
			gvals[i] = types.GenesisValidator{PubKey: pvs[i].GetPubKey(), Power: int64(1000 + rng.Intn(3)), Name: fmt.Sprintf("v%d", i)} // totals in every residue class mod 3
		}
		genDoc := &types.GenesisDoc{ChainID: b01Chain, Validators: gvals}
		st0, err := MakeGenesisStatus(genDoc)
		if err != nil {
			t.Fatal(err)
		}
		valSet := st0.Validators
		byz := pvs[rng.Intn(4)] // any of the four may be the Byzantine one
		var nodes []*b01Node
		for i, pv := range pvs {
			if pv == byz {
				continue
			}
			status, _ := MakeGenesisStatus(genDoc)
			db := dbm.NewMemDB()
			SaveStatus(db, status)
			app := &b01App{id: i}
			config := cfg.TestConsensusConfig()
			config.SkipTimeoutCommit = false
			cs := NewConsensusState(config, status, NewBlockExecutor(db, nop, MockEvidencePool{}), app, MockMempool{}, MockEvidencePool{})
			cs.SetLogger(nop)
			cs.SetPrivValidator(pv)
			tick := &b01Ticker{c: make(chan timeoutInfo)}
			cs.SetTimeoutTicker(tick)
			bus := types.NewEventBus()
			bus.SetLogger(nop)
			bus.Start()
			cs.SetEventBus(bus)
			nodes = append(nodes, &b01Node{name: fmt.Sprintf("N%d", i), cs: cs, app: app, tick: tick, emitted: map[[2]int][]types.BlockID{}})
		}
		// delivered[i][j]: how many of node i's emitted messages node j has been offered
		sent := make([][]int, len(nodes))
		for i := range sent {
			sent[i] = make([]int, len(nodes))
		}
		var trace []string
		blocks := []types.BlockID{{}} // block ids seen so far (nil first)
		partsOf := map[string]*types.PartSet{}
		note := func(n *b01Node) {
			for _, m := range n.out {
				if vm, ok := m.(*VoteMessage); ok && !vm.Vote.BlockID.IsZero() {
					known := false
					for _, b := range blocks {
						if b.Equals(vm.Vote.BlockID) {
							known = true
						}
					}
					if !known {
						blocks = append(blocks, vm.Vote.BlockID)
					}
				}
			}
			if n.cs.ProposalBlockParts != nil && n.cs.ProposalBlockParts.IsComplete() {
				partsOf[string(n.cs.ProposalBlockParts.Header().Hash)] = n.cs.ProposalBlockParts
			}
		}
		bidx, _ := valSet.GetByAddress(byz.GetAddress())
		byzVote := func(round int, typ byte, id types.BlockID) ConsensusMessage {
			v := &types.Vote{ValidatorAddress: byz.GetAddress(), ValidatorIndex: bidx, ValidatorSize: valSet.Size(), Height: 1, Round: round,
				Timestamp: time.Now().UTC(), Type: typ, BlockID: id}
			// a Byzantine key signs whatever it likes: a fresh mock signer state per vote
			if err := byz.(*types.MockPV).SignVote(b01Chain, v); err != nil {
				return nil
			}
			return &VoteMessage{v}
		}
		byzApp := &b01App{id: 9}
		for _, n := range nodes {
			n.cs.scheduleRound0(&n.cs.RoundState)
		}
		check := func(when string) {
			cases++
			var first *types.Block
			for _, n := range nodes {
				for _, p := range n.problems {
					nfail++
					fmt.Printf("BOUNDED-FAIL: schedule %d, %s: %s\n   trace: %v\n", sc, when, p, trace)
				}
				n.problems = nil
				if len(n.app.committed) > 0 {
					if first == nil {
						first = n.app.committed[0]
					} else if first.Hash() != n.app.committed[0].Hash() {
						nfail++
						fmt.Printf("BOUNDED-FAIL: schedule %d, %s: two correct nodes committed different blocks at height 1 (%X and %X)\n   trace: %v\n", sc, when, first.Hash().Bytes()[:4], n.app.committed[0].Hash().Bytes()[:4], trace)
					}
				}
			}
		}
		maxRound := func() int {
			m := 0
			for _, n := range nodes {
				if n.cs.Height == 1 && n.cs.Round > m {
					m = n.cs.Round
				}
			}
			return m
		}
		for step := 0; step < steps && nfail == 0; step++ {
			switch k := rng.Intn(10); {
			case k < 5: // deliver the next pending message of i to j (in order per pair; a pair may lag arbitrarily)
				i, j := rng.Intn(len(nodes)), rng.Intn(len(nodes))
				if i == j || sent[i][j] >= len(nodes[i].out) {
					continue
				}
				m := nodes[i].out[sent[i][j]]
				if rng.Intn(12) != 0 { // now and then the same message is offered again later
					sent[i][j]++
				}
				if rng.Intn(25) == 0 { // lost
					continue
				}
				if nodes[j].cs.Height == 1 {
					nodes[j].cs.handleMsg(msgInfo{m, nodes[i].name})
					nodes[j].drain()
					trace = append(trace, fmt.Sprintf("%s>%s", nodes[i].name, nodes[j].name))
				}
			case k < 7: // a timeout fires
				n := nodes[rng.Intn(len(nodes))]
				if ti := n.tick.armed; ti != nil && n.cs.Height == 1 {
					n.tick.armed = nil
					n.cs.handleTimeout(*ti, n.cs.RoundState)
					n.drain()
					trace = append(trace, fmt.Sprintf("%s!%d/%v", n.name, ti.Round, ti.Step))
				}
			case k < 9: // the Byzantine validator votes: any type, any round so far, any block seen or nil, to a random subset
				typ := []byte{types.VoteTypePrevote, types.VoteTypePrecommit}[rng.Intn(2)]
				round := rng.Intn(maxRound() + 1)
				id := blocks[rng.Intn(len(blocks))]
				if m := byzVote(round, typ, id); m != nil {
					for _, n := range nodes {
						if rng.Intn(2) == 0 && n.cs.Height == 1 {
							n.cs.handleMsg(msgInfo{m, "Z"})
							n.drain()
						}
					}
					trace = append(trace, fmt.Sprintf("Z:%d/%d/%d", typ, round, len(blocks)))
				}
			default: // the Byzantine validator proposes where it is the proposer: a fresh block or an older one, per recipient
				round := maxRound()
				vs := valSet.Copy()
				if round > 0 {
					vs.IncrementAccum(round)
				}
				if !bytes.Equal(vs.GetProposer().Address, byz.GetAddress()) {
					continue
				}
				for _, n := range nodes {
					if rng.Intn(3) == 0 || n.cs.Height != 1 {
						continue
					}
					var parts *types.PartSet
					if len(partsOf) > 0 && rng.Intn(2) == 0 {
						for _, p := range partsOf {
							parts = p
							break
						}
					} else {
						b := byzApp.CreateBlock(1, 0, 0, 0)
						parts = b.MakePartSet(65536)
						partsOf[string(parts.Header().Hash)] = parts
					}
					prop := types.NewProposal(1, round, parts.Header(), -1, types.BlockID{})
					prop.Type = types.ProposalTypeNormal
					if err := byz.SignProposal(b01Chain, prop); err != nil {
						continue
					}
					n.cs.handleMsg(msgInfo{&ProposalMessage{prop}, "Z"})
					for i := 0; i < parts.Total(); i++ {
						n.cs.handleMsg(msgInfo{&BlockPartMessage{1, round, parts.GetPart(i)}, "Z"})
					}
					n.drain()
				}
				trace = append(trace, fmt.Sprintf("Zprop/%d", round))
			}
			for _, n := range nodes {
				note(n)
			}
			if len(trace) > 80 {
				trace = trace[len(trace)-80:]
			}
			check(fmt.Sprintf("step %d", step))
			for _, n := range nodes {
				if n.cs.Height == 1 && n.cs.Round > topRound {
					topRound = n.cs.Round
				}
				if n.cs.Height == 1 && n.cs.LockedBlock != nil {
					locks++
				}
			}
		}
		for _, n := range nodes {
			commits += len(n.app.committed)
		}
	}
	fmt.Printf("BOUNDED-CASES: %d states examined (%d seeded schedules of %d steps; three correct validators on the real state machine, one Byzantine validator with about a quarter of the power; reached: %d commits, round %d, %d node-states holding a lock), %d failures\n", cases, schedules, steps, commits, topRound, locks, nfail)
	if nfail > 0 {
		t.Fatalf("%d failures", nfail)
	}
}
