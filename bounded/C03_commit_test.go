package types

// Bounded stand-in for C03 (labelled bounded, never counted as proved): seeded validator sets of 1..7 validators with
// powers from {1,2,3,5,7,100} and commits assembled by hand, slot by slot, against an independent oracle.
//  verify   every slot is one of: empty; a correct precommit of that validator for the block; a correct precommit
//           for another block; for nil; of another round (valid when all votes share it); of another height; a prevote; signed by another
//           validator's key; with the (unsigned) address or index field naming another validator - still this slot's signature, counted for this slot; the copy of another slot's vote;
//           a correct vote with one byte of its signature altered. The oracle: the commit is valid exactly when every
//           non-empty slot holds a correctly signed precommit of that slot's validator for this chain, height and
//           one common round (votes for other blocks or nil are allowed but do not count), and the power of the
//           slots voting for the block is more than two thirds of the total. VerifyCommit must agree (a wrong slot
//           count and a wrong block id in the commit are tried too).
//  voteset  the same votes offered to a real VoteSet in a seeded order: it reports a +2/3 majority for the block
//           exactly when the correct votes for it that were offered exceed two thirds; votes it admits are exactly
//           the correct ones of their slot for this height/round/type (conflicting second votes of a validator are
//           reported as such, never counted); MakeCommit of a set with a majority verifies.

import (
	"fmt"
	"math/rand"
	"os"
	"testing"
	"time"

	"github.com/lianxiangcloud/linkchain/libs/common"
	"github.com/lianxiangcloud/linkchain/libs/crypto"
)

func TestBoundedC03(t *testing.T) {
	seed := int64(1)
	fmt.Sscan(os.Getenv("VERIF_SEED"), &seed)
	rounds := 400
	if os.Getenv("VERIF_TIER") == "thorough" {
		rounds = 12000
	}
	const chain = "verif-c03"
	rng := rand.New(rand.NewSource(seed))
	powers := []int64{1, 2, 3, 5, 7, 100}
	var hA, hB common.Hash
	hA[0], hB[0] = 0xa, 0xb
	idA := BlockID{Hash: hA, PartsHeader: PartSetHeader{Total: 2, Hash: []byte{1}}}
	idB := BlockID{Hash: hB, PartsHeader: PartSetHeader{Total: 2, Hash: []byte{2}}}
	nfail, cases := 0, 0
	fail := func(format string, a ...interface{}) {
		nfail++
		if nfail <= 6 {
			fmt.Printf("BOUNDED-FAIL: "+format+"\n", a...)
		}
	}
	for r := 0; r < rounds; r++ {
		n := 1 + rng.Intn(7)
		vals := make([]*Validator, n)
		pvs := map[string]PrivValidator{}
		for i := range vals {
			pv := NewMockPV()
			vals[i] = NewValidator(pv.GetPubKey(), common.EmptyAddress, powers[rng.Intn(len(powers))])
			pvs[string(pv.GetAddress())] = pv
		}
		vs := NewValidatorSet(vals)
		total := vs.TotalVotingPower()
		const height, round = uint64(5), 1
		sign := func(slot int, signer int, h uint64, rd int, typ byte, id BlockID, addrOf, idxOf int) *Vote {
			_, av := vs.GetByIndex(addrOf)
			v := &Vote{ValidatorAddress: av.Address, ValidatorIndex: idxOf, ValidatorSize: n, Height: h, Round: rd, Timestamp: time.Unix(1500000000, 0).UTC(), Type: typ, BlockID: id}
			_, sv := vs.GetByIndex(signer)
			if err := pvs[string(sv.Address)].SignVote(chain, v); err != nil {
				t.Fatal(err)
			}
			return v
		}
		commit := &Commit{BlockID: idA, Precommits: make([]*Vote, n)}
		kind := make([]int, n)
		forA, wellFormed := int64(0), true
		for i := 0; i < n; i++ {
			other := (i + 1) % n
			k := rng.Intn(14)
			if k >= 2 && k <= 4 && rng.Intn(2) == 0 {
				k = 1 // more commits near the threshold
			}
			kind[i] = k
			switch k {
			case 0: // empty
			case 1:
				commit.Precommits[i] = sign(i, i, height, round, VoteTypePrecommit, idA, i, i)
				_, v := vs.GetByIndex(i)
				forA += v.VotingPower
			case 2:
				commit.Precommits[i] = sign(i, i, height, round, VoteTypePrecommit, idB, i, i)
			case 3:
				commit.Precommits[i] = sign(i, i, height, round, VoteTypePrecommit, BlockID{}, i, i)
			case 4: // a correct precommit of another round: fine when it is the commit's common round, invalid otherwise
				commit.Precommits[i] = sign(i, i, height, round+1, VoteTypePrecommit, idA, i, i)
				_, v := vs.GetByIndex(i)
				forA += v.VotingPower
			case 5:
				commit.Precommits[i] = sign(i, i, height+1, round, VoteTypePrecommit, idA, i, i)
				wellFormed = false
			case 6:
				commit.Precommits[i] = sign(i, i, height, round, VoteTypePrevote, idA, i, i)
				wellFormed = false
			case 7:
				if n > 1 {
					commit.Precommits[i] = sign(i, other, height, round, VoteTypePrecommit, idA, i, i) // another validator's key
					wellFormed = false
				}
			case 8:
				if n > 1 {
					// the address field names another validator; it is not part of the signed bytes: the signature is still this
					// slot's validator's, and it is this slot's power that counts
					commit.Precommits[i] = sign(i, i, height, round, VoteTypePrecommit, idA, other, i)
					_, v := vs.GetByIndex(i)
					forA += v.VotingPower
				}
			case 9:
				if n > 1 {
					commit.Precommits[i] = sign(i, i, height, round, VoteTypePrecommit, idA, i, other) // the index field likewise
					_, v := vs.GetByIndex(i)
					forA += v.VotingPower
				}
			case 10:
				if n > 1 {
					commit.Precommits[i] = sign(i, other, height, round, VoteTypePrecommit, idA, other, other) // the other slot's own correct vote, copied here
					wellFormed = false
				}
			case 11:
				v := sign(i, i, height, round, VoteTypePrecommit, idA, i, i)
				if ed, ok := v.Signature.(crypto.SignatureEd25519); ok {
					ed[20] ^= 1
					v.Signature = ed
					commit.Precommits[i] = v
					wellFormed = false
				}
			default:
				commit.Precommits[i] = sign(i, i, height, round, VoteTypePrecommit, idA, i, i)
				_, v := vs.GetByIndex(i)
				forA += v.VotingPower
			}
		}
		hasVote := false
		common := 0
		for _, v := range commit.Precommits {
			if v != nil {
				if !hasVote {
					common = v.Round // the commit's round is the round of its first vote
				}
				hasVote = true
				if v.Round != common {
					wellFormed = false
				}
			}
		}
		want := wellFormed && hasVote && forA*3 > total*2
		cases++
		err := func() (e error) {
			defer func() {
				if x := recover(); x != nil {
					e = fmt.Errorf("panic: %v", x)
					fail("VerifyCommit panics: %v (kinds %v)", x, kind)
				}
			}()
			return vs.VerifyCommit(chain, idA, height, commit)
		}()
		if (err == nil) != want {
			fail("%d validators (total power %d), slot kinds %v, power for the block %d: VerifyCommit says %v, the oracle says valid=%v", n, total, kind, forA, err, want)
		}
		if err == nil {
			// the same commit must not verify for another block id, height or chain, nor with a slot missing or added
			cases++
			if vs.VerifyCommit(chain, idB, height, commit) == nil || vs.VerifyCommit(chain, idA, height+1, commit) == nil || vs.VerifyCommit(chain+"x", idA, height, commit) == nil {
				fail("a valid commit also verifies for another block id, height or chain (kinds %v)", kind)
			}
			short := &Commit{BlockID: idA, Precommits: commit.Precommits[:n-1]}
			long := &Commit{BlockID: idA, Precommits: append(append([]*Vote(nil), commit.Precommits...), nil)}
			if vs.VerifyCommit(chain, idA, height, short) == nil || vs.VerifyCommit(chain, idA, height, long) == nil {
				fail("a commit with a slot missing or added verifies (kinds %v)", kind)
			}
		}
		// ---- the live vote set, same material
		set := NewVoteSet(chain, height, round, VoteTypePrecommit, vs)
		offeredA := int64(0)
		seen := map[int]bool{}
		for _, i := range rng.Perm(n) {
			v := commit.Precommits[i]
			if v == nil {
				continue
			}
			cases++
			added, _ := func() (a bool, e error) {
				defer func() {
					if x := recover(); x != nil {
						fail("VoteSet.AddVote panics: %v (kind %d)", x, kind[i])
					}
				}()
				return set.AddVote(v)
			}()
			correct := kind[i] == 1 || kind[i] == 2 || kind[i] == 3 || kind[i] >= 12
			if kind[i] == 10 { // a correct vote of the other validator: admissible once, for that validator
				correct = !seen[v.ValidatorIndex]
			}
			if added != correct && !(correct && seen[v.ValidatorIndex]) {
				fail("vote set: a vote of slot kind %d was admitted=%v (validators %d)", kind[i], added, n)
			}
			if added {
				if !seen[v.ValidatorIndex] && v.BlockID.Equals(idA) {
					_, val := vs.GetByIndex(v.ValidatorIndex)
					offeredA += val.VotingPower
				}
				seen[v.ValidatorIndex] = true
			}
			maj, ok := set.TwoThirdsMajority()
			if (ok && maj.Equals(idA)) != (offeredA*3 > total*2) {
				fail("vote set: majority for the block reported=%v (%v) with %d of %d power offered for it", ok, maj, offeredA, total)
			}
		}
		if maj, ok := set.TwoThirdsMajority(); ok && maj.Equals(idA) {
			cases++
			if err := vs.VerifyCommit(chain, idA, height, set.MakeCommit()); err != nil {
				fail("the commit a vote set with a majority makes does not verify: %v", err)
			}
		}
	}
	fmt.Printf("BOUNDED-CASES: %d cases (%d seeded validator sets of 1..7 validators with hand-assembled commits of 14 slot kinds, and the same votes through a live vote set), %d failures\n", cases, rounds, nfail)
	if nfail > 0 {
		t.Fatalf("%d failures", nfail)
	}
}
