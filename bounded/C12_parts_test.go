package types

// Bounded stand-in for C12 (labelled bounded, never counted as proved).
//  parts   seeded data of 1..2000 bytes cut at part sizes 1..257: the receiving part set (built from the signed
//          header only) is fed the genuine parts in a seeded order with duplicates and forgeries interleaved
//          (bytes altered, index shifted to every other slot, proof of another part, proof aunts altered, dropped or
//          added, a part of another data set with the same shape, negative and out-of-range indices). A forgery is
//          never admitted; the set completes exactly when every genuine part arrived; its reader then yields the
//          original bytes.
//  header  every field of a Header, its previous block id included, perturbed one at a time: the block hash
//          changes (Recover is not in the header hash: for it the part-set hash must change, as C12 allows);
//          transactions reordered / dropped / altered, evidence and last commit altered: the corresponding header
//          hash field, and with it the block hash, changes.

import (
	"bytes"
	"fmt"
	"io/ioutil"
	"math/big"
	"math/rand"
	"os"
	"reflect"
	"testing"

	"github.com/lianxiangcloud/linkchain/libs/common"
	"github.com/lianxiangcloud/linkchain/libs/crypto"
	"github.com/lianxiangcloud/linkchain/libs/crypto/merkle"
)

func TestBoundedC12(t *testing.T) {
	seed := int64(1)
	fmt.Sscan(os.Getenv("VERIF_SEED"), &seed)
	rounds := 150
	if os.Getenv("VERIF_TIER") == "thorough" {
		rounds = 2500
	}
	rng := rand.New(rand.NewSource(seed))
	nfail, cases := 0, 0
	fail := func(format string, a ...interface{}) {
		nfail++
		if nfail <= 6 {
			fmt.Printf("BOUNDED-FAIL: "+format+"\n", a...)
		}
	}
	copyPart := func(p *Part) *Part {
		q := &Part{Index: p.Index, Bytes: append([]byte(nil), p.Bytes...)}
		for _, a := range p.Proof.Aunts {
			q.Proof.Aunts = append(q.Proof.Aunts, append([]byte(nil), a...))
		}
		return q
	}
	for r := 0; r < rounds; r++ {
		n := 1 + rng.Intn(2000) // an encoded block is never empty (NewPartSetFromData does not handle no data at all)
		if r < 8 {
			n = []int{1, 2, 3, 63, 64, 65, 256, 257}[r]
		}
		data := make([]byte, n)
		rng.Read(data)
		psz := 1 + rng.Intn(257)
		if n > 400 && psz < 4 {
			psz = 4 + rng.Intn(60)
		}
		src := NewPartSetFromData(data, psz)
		other := make([]byte, n)
		rng.Read(other)
		osrc := NewPartSetFromData(other, psz)
		dst := NewPartSetFromHeader(src.Header())
		total := src.Total()
		got := map[int]bool{}
		order := rng.Perm(total)
		tryForgery := func(p *Part, what string) {
			cases++
			added, err := func() (a bool, e error) {
				defer func() {
					if x := recover(); x != nil {
						fail("data %d bytes, part size %d: AddPart panics on %s: %v", n, psz, what, x)
					}
				}()
				return dst.AddPart(p)
			}()
			if added {
				fail("data %d bytes, part size %d, %d parts: a forged part was admitted (%s, index %d, err %v)", n, psz, total, what, p.Index, err)
			}
		}
		for step, i := range order {
			g := src.GetPart(i)
			// forgeries around the genuine part
			if total > 0 && rng.Intn(2) == 0 {
				f := copyPart(g)
				if len(f.Bytes) > 0 {
					f.Bytes[rng.Intn(len(f.Bytes))] ^= byte(1 << uint(rng.Intn(8)))
					tryForgery(f, "one bit of the bytes altered")
				}
				if total > 1 {
					f = copyPart(g)
					f.Index = (i + 1 + rng.Intn(total-1)) % total
					if !bytes.Equal(src.GetPart(f.Index).Bytes, g.Bytes) && !got[f.Index] {
						tryForgery(f, "index shifted to another slot")
					}
					f = copyPart(g)
					f.Proof = copyPart(src.GetPart((i + 1) % total)).Proof
					if !reflect.DeepEqual(f.Proof, g.Proof) {
						tryForgery(f, "proof of another part")
					}
				}
				if len(g.Proof.Aunts) > 0 {
					f = copyPart(g)
					a := f.Proof.Aunts[rng.Intn(len(f.Proof.Aunts))]
					a[rng.Intn(len(a))] ^= 0x01
					tryForgery(f, "one proof aunt altered")
					f = copyPart(g)
					f.Proof.Aunts = f.Proof.Aunts[:len(f.Proof.Aunts)-1]
					tryForgery(f, "last proof aunt dropped")
				}
				f = copyPart(g)
				f.Proof.Aunts = append(f.Proof.Aunts, bytes.Repeat([]byte{7}, 32))
				tryForgery(f, "one proof aunt added")
				if !bytes.Equal(osrc.GetPart(i).Bytes, g.Bytes) {
					tryForgery(copyPart(osrc.GetPart(i)), "the part of another data set of the same shape")
				}
				for _, bad := range []int{-1, -64, total, total + 63, 1 << 40} {
					f = copyPart(g)
					f.Index = bad
					tryForgery(f, "index out of range")
				}
			}
			cases++
			added, err := dst.AddPart(copyPart(g))
			if !added || err != nil {
				fail("data %d bytes, part size %d: the genuine part %d of %d is refused (%v)", n, psz, i, total, err)
			}
			got[i] = true
			if rng.Intn(3) == 0 { // a duplicate
				if again, _ := dst.AddPart(copyPart(g)); again {
					fail("data %d bytes, part size %d: part %d is admitted a second time", n, psz, i)
				}
			}
			if dst.IsComplete() != (step == total-1) {
				fail("data %d bytes, part size %d: complete=%v after %d of %d genuine parts", n, psz, dst.IsComplete(), step+1, total)
			}
		}
		if total > 0 {
			if !dst.IsComplete() {
				fail("data %d bytes, part size %d: not complete after all %d parts", n, psz, total)
			} else if back, _ := ioutil.ReadAll(dst.GetReader()); !bytes.Equal(back, data) {
				fail("data %d bytes, part size %d: the reassembled bytes differ from the original", n, psz)
			}
		}
	}

	// ---- header and content perturbations
	key, _ := crypto.GenerateKey()
	mkTx := func(nonce uint64) Tx {
		tx := NewTransaction(nonce, common.Address{9}, big.NewInt(5), 21000, big.NewInt(ParGasPrice), []byte{byte(nonce)})
		tx.Sign(GlobalSTDSigner, key)
		return tx
	}
	var h1, h2, h3 common.Hash
	h1[0], h2[0], h3[0] = 1, 2, 3
	base := func() *Block {
		b := &Block{
			Header: &Header{ChainID: "c", Height: 7, Coinbase: common.Address{1}, Time: 11, NumTxs: 2, TotalTxs: 20, Recover: 0, ParentHash: h1,
				LastBlockID: BlockID{Hash: h2, PartsHeader: PartSetHeader{Total: 3, Hash: []byte{1, 2, 3}}}, ValidatorsHash: h3, ConsensusHash: h1, StateHash: h2,
				ReceiptHash: h3, GasLimit: 100, GasUsed: 10},
			Data:       &Data{Txs: Txs{mkTx(0), mkTx(1)}},
			LastCommit: &Commit{BlockID: BlockID{Hash: h2}, Precommits: []*Vote{{Height: 6, Round: 0, Type: VoteTypePrecommit, ValidatorIndex: 0}}},
		}
		b.DataHash = b.Data.Hash()
		b.LastCommitHash = b.LastCommit.Hash()
		b.EvidenceHash = b.Evidence.Hash()
		return b
	}
	ref := base()
	refHash := ref.Hash()
	refParts := ref.MakePartSet(64).Header()
	hv := reflect.ValueOf(ref.Header).Elem()
	for i := 0; i < hv.NumField(); i++ {
		name := hv.Type().Field(i).Name
		if hv.Type().Field(i).PkgPath != "" { // unexported (bloom cache)
			continue
		}
		var variants []func(b *Block)
		switch name {
		case "LastBlockID":
			variants = []func(b *Block){
				func(b *Block) { b.LastBlockID.Hash[5] ^= 1 },
				func(b *Block) { b.LastBlockID.PartsHeader.Total++ },
				func(b *Block) { b.LastBlockID.PartsHeader.Hash = []byte{1, 2, 4} },
			}
		default:
			idx := i
			variants = []func(b *Block){func(b *Block) {
				f := reflect.ValueOf(b.Header).Elem().Field(idx)
				switch f.Kind() {
				case reflect.String:
					f.SetString(f.String() + "x")
				case reflect.Uint64, reflect.Uint32:
					f.SetUint(f.Uint() + 1)
				case reflect.Array:
					f.Index(f.Len() - 1).SetUint(f.Index(f.Len()-1).Uint() ^ 1)
				default:
					panic("field kind not handled: " + name)
				}
			}}
		}
		for vi, v := range variants {
			b := base()
			v(b)
			cases++
			hashChanged := b.Hash() != refHash
			partsChanged := !b.MakePartSet(64).Header().Equals(refParts)
			if name == "Recover" {
				if !partsChanged {
					fail("header field Recover perturbed: neither the block hash nor the part-set hash changes")
				}
				continue
			}
			if !hashChanged {
				fail("header field %s (variant %d) perturbed: the block hash does not change", name, vi)
			}
		}
	}
	content := []struct {
		name  string
		apply func(b *Block)
		field func(b *Block) common.Hash
	}{
		{"transactions swapped", func(b *Block) { b.Data.Txs[0], b.Data.Txs[1] = b.Data.Txs[1], b.Data.Txs[0] }, func(b *Block) common.Hash { return (&Data{Txs: b.Data.Txs}).Hash() }},
		{"a transaction dropped", func(b *Block) { b.Data.Txs = b.Data.Txs[:1] }, func(b *Block) common.Hash { return (&Data{Txs: b.Data.Txs}).Hash() }},
		{"a transaction replaced", func(b *Block) { b.Data.Txs[1] = mkTx(5) }, func(b *Block) common.Hash { return (&Data{Txs: b.Data.Txs}).Hash() }},
		{"a precommit altered", func(b *Block) { b.LastCommit.Precommits[0].Round = 1 }, func(b *Block) common.Hash { return (&Commit{BlockID: b.LastCommit.BlockID, Precommits: b.LastCommit.Precommits}).Hash() }},
		{"a precommit slot added", func(b *Block) { b.LastCommit.Precommits = append(b.LastCommit.Precommits, nil) }, func(b *Block) common.Hash { return (&Commit{BlockID: b.LastCommit.BlockID, Precommits: b.LastCommit.Precommits}).Hash() }},
	}
	for _, c := range content {
		b0 := base()
		before := c.field(b0)
		b := base()
		c.apply(b)
		cases++
		if c.field(b) == before {
			fail("%s: the hash the header carries for it does not change", c.name)
		}
	}
	_ = merkle.SimpleProof{}
	fmt.Printf("BOUNDED-CASES: %d cases (%d data sets cut into parts with forgeries, duplicates and seeded arrival orders; every header field and five content changes perturbed), %d failures\n", cases, rounds, nfail)
	if nfail > 0 {
		t.Fatalf("%d failures", nfail)
	}
}
