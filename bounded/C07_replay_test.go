package app

// Bounded stand-in for C07, account side (labelled bounded, never counted as proved): on a real LinkApplication a
// block is processed only if every account transaction in it sits at its sender's exact next nonce, so that no
// signed transaction executes twice. After a first committed block with three transfers of one sender (nonces
// 0,1,2), candidate second blocks are offered to CheckBlock: a replay of each earlier transaction (alone, first,
// last), the same new transaction twice, a nonce gap, a descending pair, and - as controls that must be accepted -
// the exact next nonces, plain and token transfers interleaved. The same is done with token transfers of a third
// sender (types.TokenTransaction reaches the nonce check through its own branch of GenerateTransaction). A refused block must leave no trace: the control block is still
// accepted afterwards and executes once (balances checked).

import (
	"fmt"
	"io/ioutil"
	"math/big"
	"os"
	"testing"

	"github.com/lianxiangcloud/linkchain/blockchain"
	"github.com/lianxiangcloud/linkchain/config"
	"github.com/lianxiangcloud/linkchain/libs/common"
	"github.com/lianxiangcloud/linkchain/libs/crypto"
	lctypes "github.com/lianxiangcloud/linkchain/libs/cryptonote/types"
	dbm "github.com/lianxiangcloud/linkchain/libs/db"
	"github.com/lianxiangcloud/linkchain/libs/log"
	"github.com/lianxiangcloud/linkchain/libs/ser"
	"github.com/lianxiangcloud/linkchain/libs/txmgr"
	"github.com/lianxiangcloud/linkchain/metrics"
	"github.com/lianxiangcloud/linkchain/types"
	"github.com/lianxiangcloud/linkchain/utxo"
)

type c07Mempool struct {
	txs   types.Txs
	cache map[common.Hash]types.Tx
}

func (m *c07Mempool) Reap(int) types.Txs                    { return m.txs }
func (*c07Mempool) Update(uint64, types.Txs) error          { return nil }
func (m *c07Mempool) GetTxFromCache(h common.Hash) types.Tx { return m.cache[h] }
func (*c07Mempool) Lock()                                   {}
func (*c07Mempool) Unlock()                                 {}
func (*c07Mempool) KeyImageExists(lctypes.Key) bool         { return false }
func (*c07Mempool) KeyImagePush(lctypes.Key) bool           { return true }
func (*c07Mempool) KeyImageRemoveKeys([]*lctypes.Key)       {}
func (*c07Mempool) KeyImageReset()                          {}

func TestBoundedC07Replay(t *testing.T) {
	// the flat state keeps an undo log file in the working directory: work in a scratch directory, not in /repo
	if dir, err := ioutil.TempDir("", "verifbounded"); err == nil {
		defer os.RemoveAll(dir)
		os.Chdir(dir)
	}
	sk := crypto.GenPrivKeySecp256k1()
	metrics.PrometheusMetricInstance.Init(config.DefaultConfig(), sk.PubKey(), log.NewNopLogger())
	metrics.PrometheusMetricInstance.SetCurrentProposerPubkey(sk.PubKey())
	metrics.PrometheusMetricInstance.SetRole(types.NodePeer)

	key, _ := crypto.GenerateKey()
	from := crypto.PubkeyToAddress(key.PublicKey)
	to := common.Address{0x55}
	gp := big.NewInt(types.ParGasPrice)
	one := big.NewInt(1e18)
	mk := func(nonce uint64) types.Tx {
		tx := types.NewTransaction(nonce, to, one, types.CalNewAmountGas(one, types.EverLiankeFee), gp, nil)
		if err := tx.Sign(types.GlobalSTDSigner, key); err != nil {
			t.Fatal(err)
		}
		return tx
	}
	txs := map[uint64]types.Tx{}
	for n := uint64(0); n <= 6; n++ {
		txs[n] = mk(n)
	}
	// a second sender whose only transaction fails when executed: it can pay the fee but not value plus fee
	keyB, _ := crypto.GenerateKey()
	fromB := crypto.PubkeyToAddress(keyB.PublicKey)
	valB := new(big.Int).Div(new(big.Int).Mul(one, big.NewInt(99)), big.NewInt(100))
	txB := types.NewTransaction(0, to, valB, types.CalNewAmountGas(valB, types.EverLiankeFee), gp, nil)
	if err := txB.Sign(types.GlobalSTDSigner, keyB); err != nil {
		t.Fatal(err)
	}

	// a third sender moving a token (types.TokenTransaction takes its own path through GenerateTransaction)
	keyT, _ := crypto.GenerateKey()
	fromT := crypto.PubkeyToAddress(keyT.PublicKey)
	tokenAddr := common.HexToAddress("0x00000000000000000000000000000000746f6b31")
	tgas := types.CalNewAmountGas(big.NewInt(0), types.EverLiankeFee)
	mkT := func(nonce uint64, amount int64) types.Tx {
		tx := types.NewTokenTransaction(tokenAddr, nonce, to, big.NewInt(amount), tgas, gp, nil)
		if err := tx.Sign(types.GlobalSTDSigner, keyT); err != nil {
			t.Fatal(err)
		}
		return tx
	}
	tok := map[uint64]types.Tx{0: mkT(0, 100), 1: mkT(1, 10), 2: mkT(2, 1), 7: mkT(7, 5)}

	bs := blockchain.NewBlockStore(dbm.NewMemDB())
	g := &types.Block{Header: &types.Header{Height: 0, Time: 1507737600, GasLimit: types.DefaultConsensusParams().BlockSize.MaxGas}, Data: &types.Data{}, LastCommit: &types.Commit{}}
	bs.SaveBlock(g, g.MakePartSet(types.DefaultConsensusParams().BlockGossip.BlockPartSizeBytes), nil, nil, &types.TxsResult{})
	cross := txmgr.NewCrossState(dbm.NewMemDB(), bs)
	bs.SetCrossState(cross)
	us := utxo.NewUtxoStore(dbm.NewMemDB(), dbm.NewMemDB(), dbm.NewMemDB())
	us.SetLogger(log.NewNopLogger())
	a, err := NewLinkApplication(dbm.NewMemDB(), bs, us, cross, types.NewEventBus(), false, blockchain.NewBalanceRecordStore(dbm.NewMemDB(), false), nil, nil)
	if err != nil {
		t.Fatal(err)
	}
	mp := &c07Mempool{cache: map[common.Hash]types.Tx{}}
	a.SetMempool(mp)
	a.SetLastChangedVals(0, nil)
	funds := new(big.Int).Mul(one, big.NewInt(1000))
	a.storeState.AddBalance(from, funds)
	a.checkTxState.AddBalance(from, funds)
	a.storeState.AddBalance(fromB, one)
	a.checkTxState.AddBalance(fromB, one)
	a.storeState.AddBalance(fromT, funds)
	a.checkTxState.AddBalance(fromT, funds)
	a.storeState.AddTokenBalance(fromT, tokenAddr, big.NewInt(1000))
	a.checkTxState.AddTokenBalance(fromT, tokenAddr, big.NewInt(1000))

	nfail, cases := 0, 0
	fail := func(format string, x ...interface{}) {
		nfail++
		if nfail <= 8 {
			fmt.Printf("BOUNDED-FAIL: "+format+"\n", x...)
		}
	}
	// build a block the way a (possibly faulty) proposer would: headers filled from this node's own pre-run where
	// that succeeds, otherwise left as created
	offer := func(height uint64, list types.Txs, time uint64) (*types.Block, bool) {
		mp.txs = list
		b := a.CreateBlock(height, 100, 1e9, time)
		b.LastCommit = &types.Commit{}
		func() {
			defer func() { recover() }() // PreRunBlock panics on a block that does not process: the faulty proposer sends it anyway
			a.PreRunBlock(b)
		}()
		bz, _ := ser.EncodeToBytes(b)
		nb := new(types.Block)
		if err := ser.DecodeBytes(bz, nb); err != nil {
			t.Fatal(err)
		}
		return nb, a.CheckBlock(nb)
	}
	commit := func(b *types.Block) {
		if _, err := a.CommitBlock(b, b.MakePartSet(types.DefaultConsensusParams().BlockGossip.BlockPartSizeBytes), &types.Commit{}, false); err != nil {
			fail("CommitBlock(%d): %v", b.Height, err)
		}
	}
	b1, ok := offer(1, types.Txs{txs[0], txs[1], txB, txs[2], tok[0]}, 1507737700)
	if !ok {
		t.Fatalf("block 1 refused")
	}
	commit(b1)
	bal1 := new(big.Int).Set(a.storeState.GetBalance(to))
	if bal1.Cmp(new(big.Int).Mul(one, big.NewInt(3))) != 0 || a.storeState.GetNonce(fromB) != 1 {
		fail("block 1: recipient balance %v (want 3 units: the overdrawn transfer must not arrive), nonce of its sender %d (want 1: it was executed, and failed)", bal1, a.storeState.GetNonce(fromB))
	}

	if got := a.storeState.GetTokenBalance(to, tokenAddr); got.Cmp(big.NewInt(100)) != 0 || a.storeState.GetNonce(fromT) != 1 {
		fail("block 1: recipient token balance %v (want 100), nonce of the token sender %d (want 1)", got, a.storeState.GetNonce(fromT))
	}

	bad := []struct {
		name string
		list types.Txs
	}{
		{"replay of the first transaction", types.Txs{txs[0]}},
		{"replay of the last transaction", types.Txs{txs[2]}},
		{"replay in front of a fresh transaction", types.Txs{txs[1], txs[3]}},
		{"replay behind a fresh transaction", types.Txs{txs[3], txs[2]}},
		{"the same fresh transaction twice", types.Txs{txs[3], txs[3]}},
		{"replay of a transaction that failed when it was executed", types.Txs{txB}},
		{"replay of the failed transaction behind a fresh one", types.Txs{txs[3], txB}},
		{"nonce gap", types.Txs{txs[4]}},
		{"gap behind the next nonce", types.Txs{txs[3], txs[5]}},
		{"descending pair", types.Txs{txs[4], txs[3]}},
		{"replay of a token transfer", types.Txs{tok[0]}},
		{"replay of a token transfer behind fresh transactions", types.Txs{txs[3], tok[1], tok[0]}},
		{"the same fresh token transfer twice", types.Txs{tok[1], tok[1]}},
		{"token transfer with a nonce gap", types.Txs{tok[7]}},
		{"token transfers in descending order", types.Txs{tok[2], tok[1]}},
	}
	for i, c := range bad {
		cases++
		if _, ok := offer(2, c.list, 1507737710+uint64(i)); ok {
			fail("a block with %s is accepted", c.name)
		}
		if a.storeState.GetNonce(from) != 3 || a.storeState.GetBalance(to).Cmp(bal1) != 0 || a.storeState.GetNonce(fromT) != 1 || a.storeState.GetTokenBalance(to, tokenAddr).Cmp(big.NewInt(100)) != 0 {
			fail("after the refused block with %s the committed state changed (nonce %d)", c.name, a.storeState.GetNonce(from))
		}
	}
	good, ok := offer(2, types.Txs{txs[3], tok[1], txs[4], tok[2]}, 1507737750)
	cases++
	if !ok {
		fail("the block with exactly the next two nonces is refused after the refused ones")
	} else {
		commit(good)
		want := new(big.Int).Add(bal1, new(big.Int).Mul(one, big.NewInt(2)))
		if got := a.storeState.GetTokenBalance(to, tokenAddr); got.Cmp(big.NewInt(111)) != 0 || a.storeState.GetNonce(fromT) != 3 {
			fail("after the accepted block: recipient token balance %v (want 111), token sender nonce %d (want 3)", got, a.storeState.GetNonce(fromT))
		}
		if a.storeState.GetNonce(from) != 5 || a.storeState.GetBalance(to).Cmp(want) != 0 {
			fail("after the accepted block: nonce %d (want 5), recipient balance %v (want %v)", a.storeState.GetNonce(from), a.storeState.GetBalance(to), want)
		}
	}
	fmt.Printf("BOUNDED-CASES: %d candidate blocks after one committed block (%d that re-include, repeat, skip or reorder nonces; 1 control), %d failures\n", cases, len(bad), nfail)
	if nfail > 0 {
		t.Fatalf("%d failures", nfail)
	}
}
