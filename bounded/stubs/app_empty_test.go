package app
