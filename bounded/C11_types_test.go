package types

// Bounded stand-in for C11 (labelled bounded, never counted as proved): the reflect-driven encoders and decoders
// are outside the verifier's reach; this runs the real ones of the working tree on (a) a fixed set of values of
// the main consensus/storage types with boundary integers, nil pointers/interfaces and negative integers:
// decode(encode(v)) must re-encode to the same bytes; (b) seeded mutations (byte flips, truncations, length-field
// edits, random tails) of each encoding: decoding must return a value or an error - no panic - and allocate less
// than 64 MiB; a successfully decoded mutant must re-encode stably (encode(decode(encode(decode(m)))) fixed point).

import (
	"bytes"
	"fmt"
	"math/big"
	"math/rand"
	"os"
	"reflect"
	"runtime"
	"testing"
	"time"

	"github.com/lianxiangcloud/linkchain/libs/common"
	"github.com/lianxiangcloud/linkchain/libs/crypto"
	"github.com/lianxiangcloud/linkchain/libs/crypto/merkle"
	"github.com/lianxiangcloud/linkchain/libs/ser"
)

type bC11Acct struct {
	Nonce  uint64
	Tokens map[[20]byte]*big.Int
}

func TestBoundedC11(t *testing.T) {
	seed := int64(1)
	fmt.Sscan(os.Getenv("VERIF_SEED"), &seed)
	muts := 400
	if os.Getenv("VERIF_TIER") == "thorough" {
		muts = 6000
	}
	pk := crypto.GenPrivKeyEd25519FromSecret([]byte("x"))
	sig, _ := pk.Sign([]byte("m"))
	var h common.Hash
	h[0] = 7
	bid := BlockID{Hash: h, PartsHeader: PartSetHeader{Total: 3, Hash: []byte{1, 2}}}
	ts := time.Unix(1569400000, 123000000).UTC()
	v := &Vote{ValidatorAddress: pk.PubKey().Address(), ValidatorIndex: 2, ValidatorSize: 4, Height: 9, Round: 1, Timestamp: ts, Type: VoteTypePrecommit, BlockID: bid, Signature: sig}
	val := NewValidator(pk.PubKey(), common.EmptyAddress, 10)
	val.Accum = -5
	to := common.Address{9}
	tx := NewTransaction(3, to, big.NewInt(5), 21000, big.NewInt(ParGasPrice), []byte{1, 2, 3})
	type sample struct {
		name string
		in   interface{}
		mk   func() interface{}
	}
	samples := []sample{
		{"Vote", v, func() interface{} { return new(Vote) }},
		{"Vote(zero)", &Vote{}, func() interface{} { return new(Vote) }},
		{"Proposal(POLRound=-1)", &Proposal{Height: 9, Round: 1, Timestamp: ts, BlockPartsHeader: bid.PartsHeader, POLRound: -1, Signature: sig}, func() interface{} { return new(Proposal) }},
		{"Commit(nil slot)", &Commit{BlockID: bid, Precommits: []*Vote{v, nil, v}}, func() interface{} { return new(Commit) }},
		{"Header(extremes)", &Header{ChainID: "c", Height: 1<<63 + 5, Time: 1, TotalTxs: ^uint64(0), Recover: 2, LastBlockID: bid, GasLimit: 1}, func() interface{} { return new(Header) }},
		{"Part", &Part{Index: 2, Bytes: []byte{1, 2, 3}, Proof: merkle.SimpleProof{Aunts: [][]byte{{1}, {2}}}}, func() interface{} { return new(Part) }},
		{"Part(neg index)", &Part{Index: -7}, func() interface{} { return new(Part) }},
		{"ValidatorSet", &ValidatorSet{Validators: []*Validator{val}, Proposer: val}, func() interface{} { return new(ValidatorSet) }},
		{"DuplicateVoteEvidence", &DuplicateVoteEvidence{PubKey: pk.PubKey(), VoteA: v, VoteB: v}, func() interface{} { return new(DuplicateVoteEvidence) }},
		{"Transaction", tx, func() interface{} { return new(Transaction) }},
		{"Account-shaped map", &bC11Acct{Nonce: 1, Tokens: map[[20]byte]*big.Int{{1}: big.NewInt(5), {1, 0, 2}: big.NewInt(0), {0xff}: new(big.Int).Lsh(big.NewInt(1), 200)}}, func() interface{} { return new(bC11Acct) }},
		{"Block", &Block{Header: &Header{ChainID: "c", Height: 2}, Data: &Data{}, LastCommit: &Commit{}}, func() interface{} { return new(Block) }},
	}
	dve := &DuplicateVoteEvidence{PubKey: pk.PubKey(), VoteA: v, VoteB: v}
	evBlock := &Block{Header: &Header{ChainID: "c", Height: 3}, Data: &Data{}, LastCommit: &Commit{}, Evidence: EvidenceData{Evidence: EvidenceList{dve}}}
	samples = append(samples,
		sample{"Block with evidence (Evidence interface inside)", evBlock, func() interface{} { return new(Block) }},
		sample{"Receipt-like log list", &[]*Log{{Address: common.Address{1}, Topics: []common.Hash{h}, Data: nil}}, func() interface{} { return new([]*Log) }},
	)
	nfail, cases := 0, 0
	fail := func(format string, a ...interface{}) {
		nfail++
		if nfail <= 6 {
			fmt.Printf("BOUNDED-FAIL: "+format+"\n", a...)
		}
	}
	rng := rand.New(rand.NewSource(seed))
	// the 7 type-prefix bytes of registered concrete types: swapped for one another inside mutants
	var prefixes [][]byte
	{
		var ev Evidence = dve
		var pub crypto.PubKey = pk.PubKey()
		var prv crypto.PrivKey = pk
		var sg crypto.Signature = sig
		for _, iv := range []interface{}{&ev, &pub, &prv, &sg} {
			if b, err := ser.EncodeToBytesWithType(iv); err == nil && len(b) >= 7 {
				prefixes = append(prefixes, b[:7])
			}
		}
	}
	for _, s := range samples {
		bz, err := ser.EncodeToBytes(s.in)
		if err != nil {
			fail("%s: encode: %v", s.name, err)
			continue
		}
		// map order must not matter: encode again several times
		for i := 0; i < 8; i++ {
			if b2, _ := ser.EncodeToBytes(s.in); !bytes.Equal(bz, b2) {
				fail("%s: two encodings of the same value differ", s.name)
				break
			}
		}
		out := s.mk()
		if err := ser.DecodeBytes(bz, out); err != nil {
			fail("%s: decode of its own encoding: %v", s.name, err)
			continue
		}
		bz2, err := ser.EncodeToBytes(out)
		if err != nil || !bytes.Equal(bz, bz2) {
			fail("%s: re-encoding differs (err %v):\n %x\n %x", s.name, err, bz, bz2)
		}
		cases++
		for m := 0; m < muts; m++ {
			mb := append([]byte(nil), bz...)
			switch rng.Intn(6) {
			case 5:
				// replace an occurrence of one registered type prefix by another one
				var at []int
				for _, p := range prefixes {
					for i := 0; i+7 <= len(mb); i++ {
						if bytes.Equal(mb[i:i+7], p) {
							at = append(at, i)
						}
					}
				}
				if len(at) == 0 || len(prefixes) < 2 {
					mb[rng.Intn(len(mb))] ^= 0x80
				} else {
					copy(mb[at[rng.Intn(len(at))]:], prefixes[rng.Intn(len(prefixes))])
				}
			case 0:
				mb[rng.Intn(len(mb))] ^= byte(1 << uint(rng.Intn(8)))
			case 1:
				mb = mb[:rng.Intn(len(mb)+1)]
			case 2:
				mb[rng.Intn(len(mb))] = byte(rng.Intn(256))
			case 3:
				i := rng.Intn(len(mb))
				mb = append(mb[:i:i], append([]byte{0xb8 + byte(rng.Intn(8)), 0xff, 0xff, 0xff, 0xff}, mb[i:]...)...)
			default:
				for k := 0; k < 1+rng.Intn(6); k++ {
					mb = append(mb, byte(rng.Intn(256)))
				}
			}
			cases++
			func() {
				defer func() {
					if r := recover(); r != nil {
						fail("%s: decoding a mutant panics: %v (bytes %x)", s.name, r, mb)
					}
				}()
				var m0, m1 runtime.MemStats
				runtime.ReadMemStats(&m0)
				o := s.mk()
				err := ser.DecodeBytes(mb, o)
				runtime.ReadMemStats(&m1)
				if d := m1.TotalAlloc - m0.TotalAlloc; d > 64<<20 {
					fail("%s: decoding %d mutant bytes allocated %d MiB (bytes %x)", s.name, len(mb), d>>20, mb)
				}
				if err != nil {
					return
				}
				e1, err := ser.EncodeToBytes(o)
				if err != nil {
					return // a decodable value the encoder refuses: not part of this check
				}
				o2 := s.mk()
				if err := ser.DecodeBytes(e1, o2); err != nil {
					fail("%s: the re-encoding of a decoded mutant does not decode: %v (mutant %x)", s.name, err, mb)
					return
				}
				if e2, _ := ser.EncodeToBytes(o2); !bytes.Equal(e1, e2) {
					fail("%s: encoding of a decoded mutant is not stable (mutant %x)", s.name, mb)
				}
				_ = reflect.TypeOf(o)
			}()
		}
	}
	// values handed around as registered interfaces (type prefix): Evidence, PubKey, Signature
	{
		var ev Evidence = dve
		bz, err := ser.EncodeToBytesWithType(&ev)
		cases++
		func() {
			defer func() {
				if r := recover(); r != nil {
					fail("decoding an Evidence interface value panics: %v", r)
				}
			}()
			var ev2 Evidence
			if err != nil {
				fail("Evidence interface: encode: %v", err)
			} else if err := ser.DecodeBytesWithType(bz, &ev2); err != nil {
				fail("Evidence interface: decode of its own encoding: %v", err)
			} else if b2, _ := ser.EncodeToBytesWithType(&ev2); !bytes.Equal(bz, b2) {
				fail("Evidence interface: re-encoding differs")
			}
		}()
		var pub crypto.PubKey = pk.PubKey()
		bz, err = ser.EncodeToBytesWithType(&pub)
		cases++
		func() {
			defer func() {
				if r := recover(); r != nil {
					fail("decoding a PubKey interface value panics: %v", r)
				}
			}()
			var pub2 crypto.PubKey
			if err != nil {
				fail("PubKey interface: encode: %v", err)
			} else if err := ser.DecodeBytesWithType(bz, &pub2); err != nil || pub2 == nil || !pub2.Equals(pub) {
				fail("PubKey interface: round trip failed: %v", err)
			}
		}()
	}
	// size sweep: every payload size around the short/long header boundaries, as a byte string, as a list of
	// small integers and as a nested list; Encode(io.Writer) and EncodeToBytes must agree
	type bSweep struct {
		A []byte
		B []uint16
		C [][]byte
	}
	for n := 0; n <= 300; n++ {
		in := &bSweep{A: bytes.Repeat([]byte{0x81}, n), B: make([]uint16, n%70), C: [][]byte{bytes.Repeat([]byte{1}, n%60), {}}}
		for i := range in.B {
			in.B[i] = uint16(i * 5)
		}
		bz, err := ser.EncodeToBytes(in)
		cases++
		if err != nil {
			fail("sweep n=%d: encode: %v", n, err)
			continue
		}
		var wbuf bytes.Buffer
		if err := ser.Encode(&wbuf, in); err != nil || !bytes.Equal(wbuf.Bytes(), bz) {
			fail("sweep n=%d: Encode(io.Writer) and EncodeToBytes disagree (err %v)", n, err)
		}
		out := new(bSweep)
		if err := ser.DecodeBytes(bz, out); err != nil {
			fail("sweep n=%d: decoding its own encoding: %v", n, err)
			continue
		}
		if b2, _ := ser.EncodeToBytes(out); !bytes.Equal(bz, b2) {
			fail("sweep n=%d: re-encoding differs", n)
		}
	}
	fmt.Printf("BOUNDED-CASES: %d decodings (%d sample values of consensus/storage types, %d seeded mutants each: bit flips, truncations, byte replacements, swapped registered type prefixes, injected long-form headers, random tails), %d failures\n", cases, len(samples), muts, nfail)
	if nfail > 0 {
		t.Fatalf("%d failures", nfail)
	}
}
