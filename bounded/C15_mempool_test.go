package mempool

// Bounded stand-in for C15 (labelled bounded, never counted as proved): the real Mempool driven through AddTx,
// Reap, Lock/Update/Unlock by seeded random histories against a small application that keeps a committed ledger
// and a speculative one the way LinkApplication does (CheckTx -> the real tx.CheckBasic / tx.CheckState of
// package types). After every operation the offer is examined: Reap(all) has no transaction twice, and the
// block built from it executes on the committed ledger in the order offered - every transaction at its sender's
// exact next nonce, gas and value covered. Operations: submit a transfer with a nonce around the sender's next
// one (stale, exact, gapped), with a value that is small, large, or more than the balance; submit a competing
// transfer for a nonce already pooled; commit a prefix of the offer; commit a block the pool has not seen
// (competing transactions for pooled nonces).

import (
	"crypto/ecdsa"
	"fmt"
	"math/big"
	"math/rand"
	"os"
	"runtime"
	"sync"
	"testing"

	"github.com/lianxiangcloud/linkchain/config"
	"github.com/lianxiangcloud/linkchain/libs/common"
	"github.com/lianxiangcloud/linkchain/libs/crypto"
	"github.com/lianxiangcloud/linkchain/types"
)

type b15Ledger struct {
	nonce map[common.Address]uint64
	bal   map[common.Address]*big.Int
}

func (l *b15Ledger) clone() *b15Ledger {
	c := &b15Ledger{map[common.Address]uint64{}, map[common.Address]*big.Int{}}
	for a, n := range l.nonce {
		c.nonce[a] = n
	}
	for a, b := range l.bal {
		c.bal[a] = new(big.Int).Set(b)
	}
	return c
}
func (l *b15Ledger) get(a common.Address) *big.Int {
	if b, ok := l.bal[a]; ok {
		return b
	}
	b := new(big.Int)
	l.bal[a] = b
	return b
}
func (l *b15Ledger) Exist(a common.Address) bool             { _, ok := l.bal[a]; return ok }
func (l *b15Ledger) GetNonce(a common.Address) uint64        { return l.nonce[a] }
func (l *b15Ledger) SetNonce(a common.Address, n uint64)     { l.nonce[a] = n }
func (l *b15Ledger) GetBalance(a common.Address) *big.Int    { return new(big.Int).Set(l.get(a)) }
func (l *b15Ledger) SubBalance(a common.Address, v *big.Int) { l.get(a).Sub(l.get(a), v) }
func (l *b15Ledger) GetTokenBalance(a, token common.Address) *big.Int {
	if token == common.EmptyAddress {
		return l.GetBalance(a)
	}
	return new(big.Int)
}
func (l *b15Ledger) SubTokenBalance(a, token common.Address, v *big.Int) {
	if token == common.EmptyAddress {
		l.SubBalance(a, v)
	}
}
func (l *b15Ledger) IsContract(common.Address) bool { return false }

// execute: what app/state_transition.go does with plain transfers (exact nonce; the whole gas limit is bought and,
// for a transfer, is the fee; the value must then be covered)
func (l *b15Ledger) execute(txs types.Txs) error {
	for i, tx := range txs {
		t := tx.(*types.Transaction)
		from, err := t.From()
		if err != nil {
			return fmt.Errorf("tx %d: %v", i, err)
		}
		if n := l.nonce[from]; n != t.Nonce() {
			return fmt.Errorf("tx %d of %x: nonce %d, the account is at %d", i, from[:3], t.Nonce(), n)
		}
		gasCost := new(big.Int).Mul(new(big.Int).SetUint64(t.Gas()), t.GasPrice())
		if l.get(from).Cmp(gasCost) < 0 {
			return fmt.Errorf("tx %d of %x (nonce %d): cannot buy gas: balance %v < %v", i, from[:3], t.Nonce(), l.get(from), gasCost)
		}
		l.SubBalance(from, gasCost)
		if l.get(from).Cmp(t.Value()) < 0 {
			return fmt.Errorf("tx %d of %x (nonce %d): value not covered: balance %v < %v", i, from[:3], t.Nonce(), l.get(from), t.Value())
		}
		l.SubBalance(from, t.Value())
		l.get(*t.To()).Add(l.get(*t.To()), t.Value())
		l.nonce[from] = t.Nonce() + 1
	}
	return nil
}

type b15App struct {
	mu        sync.Mutex
	committed *b15Ledger
	check     *b15Ledger
	mem       *Mempool
	height    uint64
}

func (a *b15App) TxMgr() types.TxMgr                               { return nil }
func (a *b15App) State() types.State                               { return a.check }
func (a *b15App) Block() *types.Block                              { return nil }
func (a *b15App) GetLastChangedVals() (uint64, []*types.Validator) { return 0, nil }
func (a *b15App) LockState()                                       { a.mu.Lock() }
func (a *b15App) UnlockState()                                     { a.mu.Unlock() }
func (a *b15App) IsWasmContract([]byte) bool                       { return false }
func (a *b15App) BlockChain() types.BlockChain                     { return nil }
func (a *b15App) UTXOStore() types.UTXOStore                       { return nil }
func (a *b15App) Mempool() types.Mempool                           { return a.mem }
func (a *b15App) GetUTXOGas() uint64                               { return 0 }
func (a *b15App) GetNonce(addr common.Address) uint64 {
	a.mu.Lock()
	defer a.mu.Unlock()
	return a.check.GetNonce(addr)
}
func (a *b15App) GetBalance(addr common.Address) *big.Int {
	a.mu.Lock()
	defer a.mu.Unlock()
	return a.check.GetBalance(addr)
}
func (a *b15App) CheckTx(tx types.Tx, checkBasic bool) error {
	if checkBasic {
		return tx.CheckBasic(a)
	}
	return tx.CheckState(a)
}

func minU(a, b uint64) uint64 {
	if a < b {
		return a
	}
	return b
}

func TestBoundedC15(t *testing.T) {
	seed := int64(1)
	fmt.Sscan(os.Getenv("VERIF_SEED"), &seed)
	histories, nops := 60, 30
	if os.Getenv("VERIF_TIER") == "thorough" {
		// every pool pre-allocates about 40 MB in its transaction cache and never gives it back (its goroutines run on):
		// more operations per history rather than more pools
		histories, nops = 150, 120
	}
	type acct struct {
		key  *ecdsa.PrivateKey
		addr common.Address
	}
	var accts []acct
	for i := 0; i < 3; i++ {
		k, err := crypto.GenerateKey()
		if err != nil {
			t.Fatal(err)
		}
		accts = append(accts, acct{k, crypto.PubkeyToAddress(k.PublicKey)})
	}
	sink := common.Address{0xee}
	unit := big.NewInt(1e18)
	mkTx := func(from acct, nonce uint64, value *big.Int, salt byte) types.Tx {
		gas := types.CalNewAmountGas(value, types.EverLiankeFee)
		tx := types.NewTransaction(nonce, sink, value, gas, big.NewInt(types.ParGasPrice), []byte{salt})
		if err := tx.Sign(types.GlobalSTDSigner, from.key); err != nil {
			t.Fatal(err)
		}
		return tx
	}
	nfail, cases := 0, 0
	for h := 0; h < histories && nfail == 0; h++ {
		rng := rand.New(rand.NewSource(seed*100003 + int64(h)))
		cfg := config.DefaultMempoolConfig()
		cfg.Broadcast = false
		// the default sizes pre-allocate hundreds of megabytes per pool: hundreds of pools in one process need small ones
		cfg.CacheSize, cfg.FutureSize, cfg.BroadcastChanSize = 2000, 2000, 10
		mem := NewMempool(cfg, 0, nil)
		led := &b15Ledger{map[common.Address]uint64{}, map[common.Address]*big.Int{}}
		for i, a := range accts {
			led.bal[a.addr] = new(big.Int).Mul(unit, big.NewInt(int64(1+5*i))) // 1, 6, 11 units: tight enough to run out
		}
		app := &b15App{committed: led, check: led.clone(), mem: mem}
		mem.SetApp(app)
		var trace []string
		examine := func(when string) types.Txs {
			cases++
			txs := mem.Reap(100000)
			seen := map[common.Hash]bool{}
			for _, tx := range txs {
				if seen[tx.Hash()] {
					nfail++
					fmt.Printf("BOUNDED-FAIL: history %d, %s: a transaction is offered twice\n   trace: %v\n", h, when, trace)
					return txs
				}
				seen[tx.Hash()] = true
			}
			if err := app.committed.clone().execute(txs); err != nil {
				nfail++
				fmt.Printf("BOUNDED-FAIL: history %d, %s: the block built from the offer (%d transactions) does not execute on the committed state: %v\n   trace: %v\n", h, when, len(txs), err, trace)
			}
			return txs
		}
		commit := func(txs types.Txs) bool {
			next := app.committed.clone()
			if err := next.execute(txs); err != nil {
				return false // not a valid block: the chain would not commit it
			}
			app.height++
			mem.Lock()
			app.mu.Lock()
			app.committed = next
			app.check = next.clone()
			app.mu.Unlock()
			err := mem.Update(app.height, txs)
			mem.Unlock()
			if err != nil {
				nfail++
				fmt.Printf("BOUNDED-FAIL: history %d: Update: %v\n", h, err)
			}
			return true
		}
		next := map[common.Address]uint64{} // the next nonce each sender would naturally use
		submit := func(a acct, nonce uint64, value *big.Int, salt byte) {
			tx := mkTx(a, nonce, value, salt)
			err := mem.AddTx("", tx)
			if len(trace) > 60 {
				trace = trace[len(trace)-60:]
			}
			trace = append(trace, fmt.Sprintf("add(%x n%d v%v)=%v", a.addr[:2], nonce, new(big.Int).Div(value, big.NewInt(1e15)), err != nil))
			if err == nil && nonce >= next[a.addr] {
				next[a.addr] = nonce + 1
			}
		}
		for op := 0; op < nops && nfail == 0; op++ {
			a := accts[rng.Intn(len(accts))]
			if next[a.addr] < app.committed.nonce[a.addr] {
				next[a.addr] = app.committed.nonce[a.addr]
			}
			switch k := rng.Intn(12); {
			case k < 5: // submit one transaction: the natural next nonce, a gap, a stale one, a competitor for a pooled nonce
				nonce := next[a.addr]
				switch rng.Intn(6) {
				case 0:
					nonce += uint64(1 + rng.Intn(3))
				case 1:
					if nonce > 0 {
						nonce -= uint64(1 + rng.Intn(int(minU(nonce, 3))))
					}
				}
				var value *big.Int
				switch rng.Intn(4) {
				case 0:
					value = big.NewInt(1e15)
				case 1:
					value = new(big.Int).Set(unit)
				case 2:
					value = new(big.Int).Mul(unit, big.NewInt(int64(2+rng.Intn(4))))
				default:
					value = new(big.Int).Mul(unit, big.NewInt(50))
				}
				submit(a, nonce, value, byte(rng.Intn(3)))
			case k < 7: // a burst of small transfers with consecutive nonces (fees add up)
				for i, n := 0, 5+rng.Intn(30); i < n; i++ {
					submit(a, next[a.addr], big.NewInt(1e15), 0)
				}
			case k < 8: // fill a gap: the lowest missing nonce
				submit(a, app.committed.nonce[a.addr], big.NewInt(1e15), 1)
			case k < 10: // commit a prefix of the offer
				txs := mem.Reap(100000)
				if len(txs) == 0 {
					continue
				}
				n := 1 + rng.Intn(len(txs))
				if commit(txs[:n]) {
					trace = append(trace, fmt.Sprintf("commit-offer(%d of %d)", n, len(txs)))
				}
			default: // commit a block the pool has not seen: competing transactions at the next nonces of one or two senders
				var blk types.Txs
				for _, b := range accts[:1+rng.Intn(2)] {
					blk = append(blk, mkTx(b, app.committed.nonce[b.addr], big.NewInt(1e15), 9))
				}
				if commit(blk) {
					trace = append(trace, fmt.Sprintf("commit-foreign(%d)", len(blk)))
				}
			}
			examine(fmt.Sprintf("after operation %d", op))
		}
		mem.Stop()
		if h%20 == 19 {
			runtime.GC()
		}
	}
	fmt.Printf("BOUNDED-CASES: %d offers examined (%d seeded histories of up to %d operations, 3 senders with 1/6/11 units), %d failures\n", cases, histories, nops, nfail)
	if nfail > 0 {
		t.Fatalf("%d failures", nfail)
	}
}
