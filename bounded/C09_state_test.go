package state

// Bounded stand-in for C09 (labelled bounded, never counted as proved): seeded random histories of state operations
// (native and token balances, nonces, code, storage, account creation, self-destruct, logs, refunds, preimages)
// with arbitrarily nested snapshot/revert pairs and copies on the real StateDB.
//   revert   at every RevertToSnapshot the digest of all getters over the address/token/slot pool equals the digest
//            taken when the snapshot was made;
//   twin     at the end the IntermediateRoot equals that of a twin that executed only the operations that were
//            not reverted (every address/token pair is written once before the history starts, so that the listed
//            known finding - a first token write leaves a zero entry behind after revert - cannot interfere; it
//            is exercised separately and reported as KNOWN-FINDING when VERIF_KNOWN contains token-residue);
//   copy     a copy taken at a random point and then mutated leaves the original's digest and root untouched,
//            and later mutations of the original leave the copy's digest untouched; copies of copies likewise.

import (
	"fmt"
	"math/big"
	"math/rand"
	"os"
	"strings"
	"testing"

	"github.com/lianxiangcloud/linkchain/libs/common"
	dbm "github.com/lianxiangcloud/linkchain/libs/db"
	"github.com/lianxiangcloud/linkchain/types"
)

type b09op struct {
	kind int
	a    int
	tok  int
	slot int
	v    int64
}

func TestBoundedC09(t *testing.T) {
	seed := int64(1)
	fmt.Sscan(os.Getenv("VERIF_SEED"), &seed)
	histories, nops := 300, 60
	if os.Getenv("VERIF_TIER") == "thorough" {
		histories, nops = 5000, 80
	}
	known := os.Getenv("VERIF_KNOWN")
	addrs := []common.Address{{1}, {2}, {3}, {0xaa, 1}}
	toks := []common.Address{{0x70}, {0x71}}
	slots := []common.Hash{{1}, {2}}
	fresh := func() *StateDB {
		s, err := New(common.EmptyHash, NewDatabase(dbm.NewMemDB()))
		if err != nil {
			t.Fatal(err)
		}
		for _, a := range addrs[:3] {
			s.AddBalance(a, big.NewInt(1000))
			for _, k := range toks {
				s.SetTokenBalance(a, k, big.NewInt(100))
			}
		}
		s.Prepare(common.Hash{9}, common.Hash{8}, 0)
		return s
	}
	apply := func(s *StateDB, o b09op) {
		a := addrs[o.a]
		switch o.kind {
		case 0:
			s.AddBalance(a, big.NewInt(o.v))
		case 1:
			if s.GetBalance(a).Cmp(big.NewInt(o.v)) >= 0 {
				s.SubBalance(a, big.NewInt(o.v))
			}
		case 2:
			s.SetBalance(a, big.NewInt(o.v))
		case 3:
			s.SetNonce(a, uint64(o.v))
		case 4:
			s.SetCode(a, []byte{byte(o.v), 1, 2})
		case 5:
			if o.v%4 == 0 { // clearing a slot
				s.SetState(a, slots[o.slot], nil)
			} else {
				s.SetState(a, slots[o.slot], []byte{byte(o.v)})
			}
		case 6:
			if o.a < 3 { // the token entries of these accounts were written before the history: no first-time token write
				s.AddTokenBalance(a, toks[o.tok], big.NewInt(o.v))
			}
		case 7:
			if o.a < 3 {
				s.SetTokenBalance(a, toks[o.tok], big.NewInt(o.v))
			}
		case 8:
			if !s.Exist(a) { // creating over an existing account drops its tokens (listed known finding of C06)
				s.CreateAccount(a)
				for _, k := range toks {
					s.SetTokenBalance(a, k, big.NewInt(1))
				}
			}
		case 9:
			s.Suicide(a)
		case 10:
			s.AddLog(&types.Log{Address: a, Data: []byte{byte(o.v)}})
		case 11:
			s.AddRefund(uint64(o.v))
		case 12:
			s.AddPreimage(common.Hash{byte(o.v)}, []byte{byte(o.v)})
		}
	}
	digest := func(s *StateDB) string {
		var b strings.Builder
		for _, a := range addrs {
			fmt.Fprintf(&b, "%x:e%v/%v b%v n%d c%d k%x s%v", a[:2], s.Exist(a), s.Empty(a), s.GetBalance(a), s.GetNonce(a), s.GetCredits(a), s.GetCode(a), s.HasSuicided(a))
			for _, k := range toks {
				fmt.Fprintf(&b, " t%v", s.GetTokenBalance(a, k))
			}
			for _, sl := range slots {
				fmt.Fprintf(&b, " %x", s.GetState(a, sl))
			}
			b.WriteString("|")
		}
		fmt.Fprintf(&b, "r%d l%d p%d", s.GetRefund(), len(s.Logs()), len(s.Preimages()))
		return b.String()
	}
	nfail, cases := 0, 0
	fail := func(format string, a ...interface{}) {
		nfail++
		if nfail <= 6 {
			fmt.Printf("BOUNDED-FAIL: "+format+"\n", a...)
		}
	}
	for h := 0; h < histories && nfail < 6; h++ {
		rng := rand.New(rand.NewSource(seed*7919 + int64(h)))
		s := fresh()
		type frame struct {
			id     int
			digest string
			kept   int // number of surviving operations when the snapshot was taken
		}
		var stack []frame
		var kept []b09op
		var trace []string
		var cp, cpcp *StateDB
		var cpDigest, cpcpDigest string
		for i := 0; i < nops; i++ {
			switch k := rng.Intn(20); {
			case k < 12:
				o := b09op{rng.Intn(13), rng.Intn(len(addrs)), rng.Intn(len(toks)), rng.Intn(len(slots)), int64(1 + rng.Intn(50))}
				apply(s, o)
				kept = append(kept, o)
				trace = append(trace, fmt.Sprintf("op%d(%d,%d)", o.kind, o.a, o.v))
			case k < 15:
				stack = append(stack, frame{s.Snapshot(), digest(s), len(kept)})
				trace = append(trace, "snap")
			case k < 18:
				if len(stack) == 0 {
					continue
				}
				j := rng.Intn(len(stack)) // revert to any open snapshot: the inner ones go with it
				f := stack[j]
				s.RevertToSnapshot(f.id)
				stack, kept = stack[:j], kept[:f.kept]
				trace = append(trace, fmt.Sprintf("revert(%d)", j))
				cases++
				if d := digest(s); d != f.digest {
					fail("history %d: after reverting, the getters differ from the snapshot\n   now:  %s\n   then: %s\n   trace: %v", h, d, f.digest, trace)
				}
			case k < 19 && cp == nil:
				before, rootBefore := digest(s), s.Copy().IntermediateRoot(false)
				cp = s.Copy()
				for j := 0; j < 6; j++ {
					apply(cp, b09op{rng.Intn(13), rng.Intn(len(addrs)), rng.Intn(len(toks)), rng.Intn(len(slots)), int64(60 + rng.Intn(50))})
				}
				cpcp = cp.Copy()
				for j := 0; j < 4; j++ {
					apply(cpcp, b09op{rng.Intn(13), rng.Intn(len(addrs)), rng.Intn(len(toks)), rng.Intn(len(slots)), int64(120 + rng.Intn(50))})
				}
				cpDigest, cpcpDigest = digest(cp), digest(cpcp)
				cases++
				if d := digest(s); d != before || s.Copy().IntermediateRoot(false) != rootBefore {
					fail("history %d: mutating a copy (and a copy of it) changed the original\n   trace: %v", h, trace)
				}
				if digest(cp) != cpDigest {
					fail("history %d: mutating a copy of a copy changed the copy", h)
				}
			}
		}
		if cp != nil {
			cases++
			if digest(cp) != cpDigest || digest(cpcp) != cpcpDigest {
				fail("history %d: later operations on the original (incl. reverts) changed a copy taken earlier\n   trace: %v", h, trace)
			}
		}
		// twin: only the surviving operations
		twin := fresh()
		for _, o := range kept {
			apply(twin, o)
		}
		cases++
		if d1, d2 := digest(s), digest(twin); d1 != d2 {
			fail("history %d: the getters differ from a twin that executed only the surviving operations\n   state: %s\n   twin:  %s\n   trace: %v", h, d1, d2, trace)
		} else if r1, r2 := s.IntermediateRoot(false), twin.IntermediateRoot(false); r1 != r2 {
			fail("history %d: same getters, but the root %x differs from the twin's %x\n   trace: %v\n   kept: %v", h, r1[:4], r2[:4], trace, kept)
		}
	}
	// the listed known finding, on its own
	{
		s, twin := fresh(), fresh()
		extra := common.Address{0x55}
		s.AddBalance(extra, big.NewInt(1))
		twin.AddBalance(extra, big.NewInt(1))
		id := s.Snapshot()
		s.AddTokenBalance(extra, toks[0], big.NewInt(5)) // the first write of this token for this account
		s.RevertToSnapshot(id)
		cases++
		if s.IntermediateRoot(false) != twin.IntermediateRoot(false) {
			if strings.Contains(known, "token-residue") {
				fmt.Printf("KNOWN-FINDING: property=C09 after reverting the first write of a token an account never held, the getters agree with the snapshot but the account keeps a zero-valued entry: the root differs from an untouched twin\n")
			} else {
				fail("a reverted first token write leaves the root different from an untouched twin")
			}
		}
	}
	fmt.Printf("BOUNDED-CASES: %d checks (%d seeded histories of %d steps: 13 kinds of operation over 4 addresses, 2 tokens, 2 slots; nested snapshots reverted at any level; copies and copies of copies), %d failures\n", cases, histories, nops, nfail)
	if nfail > 0 {
		t.Fatalf("%d failures", nfail)
	}
}
