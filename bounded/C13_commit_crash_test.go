package app

// Bounded stand-in for C13 (labelled bounded, never counted as proved): the real LinkApplication.CommitBlock
// over crash-injecting databases. One block (height 1) is created, checked and committed through the real
// CreateBlock / CheckBlock / CommitBlock. Because a real confidential transaction needs libxcrypto (absent in this
// sandbox), the block's process result is given one key image and one confidential output by hand before the
// commit - they stand for what Process collects from a confidential transaction (TxsResult.SetKeyImages /
// SetUTXOOutputs are what Process itself calls). For every k the k-th database write of the commit (a batch
// counts as one write) is made to fail by stopping the process there (panic); then the node is "restarted": new
// store objects and a new LinkApplication over the same databases. The restarted node's views must describe the
// same prefix of the chain: if the block store acknowledges block 1, the spent-key-image set holds its key image,
// the confidential output index holds its output and the world state of block 1 opens. The class "block store
// ahead of the key-image/output stores after a crash between SaveBlock and SaveUtxo" is a listed known finding
// (VERIF_KNOWN contains utxo-store-behind-block-store).

import (
	"fmt"
	"io/ioutil"
	"math/big"
	"os"
	"strings"
	"sync"
	"testing"

	"github.com/lianxiangcloud/linkchain/blockchain"
	"github.com/lianxiangcloud/linkchain/config"
	bcfg "github.com/lianxiangcloud/linkchain/config"
	"github.com/lianxiangcloud/linkchain/libs/common"
	"github.com/lianxiangcloud/linkchain/libs/crypto"
	lctypes "github.com/lianxiangcloud/linkchain/libs/cryptonote/types"
	dbm "github.com/lianxiangcloud/linkchain/libs/db"
	"github.com/lianxiangcloud/linkchain/libs/log"
	"github.com/lianxiangcloud/linkchain/libs/txmgr"
	"github.com/lianxiangcloud/linkchain/metrics"
	"github.com/lianxiangcloud/linkchain/types"
	"github.com/lianxiangcloud/linkchain/utxo"
)

var _ = bcfg.DefaultConfig

// c13Ctl counts database writes; from write number `at` on (0: never) nothing reaches the disk any more (the
// process has stopped there; the rest of CommitBlock runs on in memory only and is thrown away).
type c13Ctl struct {
	mu    sync.Mutex
	n, at int
	log   []string
}

func (c *c13Ctl) hit(what string) bool {
	c.mu.Lock()
	defer c.mu.Unlock()
	c.n++
	if c.at > 0 && c.n >= c.at {
		return false
	}
	c.log = append(c.log, what)
	return true
}

type c13DB struct {
	dbm.DB
	name string
	c    *c13Ctl
}

func (d *c13DB) Set(k, v []byte) {
	if d.c.hit(d.name + ".Set") {
		d.DB.Set(k, v)
	}
}
func (d *c13DB) SetSync(k, v []byte) {
	if d.c.hit(d.name + ".SetSync") {
		d.DB.SetSync(k, v)
	}
}
func (d *c13DB) Put(k, v []byte) error {
	if d.c.hit(d.name + ".Put") {
		return d.DB.Put(k, v)
	}
	return nil
}
func (d *c13DB) Delete(k []byte) {
	if d.c.hit(d.name + ".Delete") {
		d.DB.Delete(k)
	}
}
func (d *c13DB) DeleteSync(k []byte) {
	if d.c.hit(d.name + ".DeleteSync") {
		d.DB.DeleteSync(k)
	}
}
func (d *c13DB) Del(k []byte) error {
	if d.c.hit(d.name + ".Del") {
		return d.DB.Del(k)
	}
	return nil
}
func (d *c13DB) NewBatch() dbm.Batch { return &c13Batch{d.DB.NewBatch(), d} }

type c13Batch struct {
	dbm.Batch
	d *c13DB
}

func (b *c13Batch) Commit() error {
	if b.d.c.hit(b.d.name + ".batch") {
		return b.Batch.Commit()
	}
	return nil
}
func (b *c13Batch) Write() {
	if b.d.c.hit(b.d.name + ".batch") {
		b.Batch.Write()
	}
}
func (b *c13Batch) WriteSync() {
	if b.d.c.hit(b.d.name + ".batch") {
		b.Batch.WriteSync()
	}
}

// an empty mempool
type c13Mempool struct{}

func (c13Mempool) Reap(int) types.Txs                  { return nil }
func (c13Mempool) Update(uint64, types.Txs) error      { return nil }
func (c13Mempool) GetTxFromCache(common.Hash) types.Tx { return nil }
func (c13Mempool) Lock()                               {}
func (c13Mempool) Unlock()                             {}
func (c13Mempool) KeyImageExists(lctypes.Key) bool     { return false }
func (c13Mempool) KeyImagePush(lctypes.Key) bool       { return true }
func (c13Mempool) KeyImageRemoveKeys([]*lctypes.Key)   {}
func (c13Mempool) KeyImageReset()                      {}

type c13Node struct {
	app   *LinkApplication
	bs    *blockchain.BlockStore
	us    *utxo.UtxoStore
	names []string
}

// the databases of one node (survive restarts)
type c13Disk struct {
	state, block, cross, utxo, uout, utok, brec dbm.DB
}

func c13Open(d *c13Disk, c *c13Ctl) (*c13Node, error) {
	w := func(db dbm.DB, name string) dbm.DB { return &c13DB{db, name, c} }
	bs := blockchain.NewBlockStore(w(d.block, "blockstore"))
	cross := txmgr.NewCrossState(w(d.cross, "cross"), bs)
	bs.SetCrossState(cross)
	us := utxo.NewUtxoStore(w(d.utxo, "keyimages"), w(d.uout, "outputs"), w(d.utok, "tokenoutputs"))
	us.SetLogger(log.NewNopLogger())
	br := blockchain.NewBalanceRecordStore(w(d.brec, "balancerecords"), false)
	a, err := NewLinkApplication(w(d.state, "state"), bs, us, cross, types.NewEventBus(), false, br, nil, nil)
	if err != nil {
		return nil, err
	}
	a.SetMempool(&c13Mempool{})
	return &c13Node{app: a, bs: bs, us: us}, nil
}

func TestBoundedC13(t *testing.T) {
	// the flat state keeps an undo log file in the working directory: work in a scratch directory, not in /repo
	if dir, err := ioutil.TempDir("", "verifbounded"); err == nil {
		defer os.RemoveAll(dir)
		os.Chdir(dir)
	}
	known := os.Getenv("VERIF_KNOWN")
	sk := crypto.GenPrivKeySecp256k1()
	metrics.PrometheusMetricInstance.Init(config.DefaultConfig(), sk.PubKey(), log.NewNopLogger())
	metrics.PrometheusMetricInstance.SetCurrentProposerPubkey(sk.PubKey())
	metrics.PrometheusMetricInstance.SetRole(types.NodePeer)

	var ki lctypes.Key
	ki[0], ki[31] = 0x42, 0x07
	out := &types.UTXOOutputData{Height: 1, TokenID: common.EmptyAddress}
	out.OTAddr[0] = 0x11

	fresh := func() *c13Disk {
		d := &c13Disk{dbm.NewMemDB(), dbm.NewMemDB(), dbm.NewMemDB(), dbm.NewMemDB(), dbm.NewMemDB(), dbm.NewMemDB(), dbm.NewMemDB()}
		// genesis, as the node's init does: block 0 in the block store
		bs := blockchain.NewBlockStore(d.block)
		g := &types.Block{Header: &types.Header{Height: 0, Time: 1507737600, GasLimit: types.DefaultConsensusParams().BlockSize.MaxGas}, Data: &types.Data{}, LastCommit: &types.Commit{}}
		bs.SaveBlock(g, g.MakePartSet(types.DefaultConsensusParams().BlockGossip.BlockPartSizeBytes), nil, nil, &types.TxsResult{})
		return d
	}
	// run the commit of block 1 on disk d, stopping the process before write number `at` (0: never)
	commit := func(d *c13Disk, at int) (writes []string, crashed bool) {
		c := &c13Ctl{}
		n, err := c13Open(d, c)
		if err != nil {
			t.Fatalf("open: %v", err)
		}
		n.app.SetLastChangedVals(0, nil)
		n.app.storeState.AddBalance(common.Address{9}, big.NewInt(5))
		block := n.app.CreateBlock(1, 10, 1e9, 1507737700)
		block.LastCommit = &types.Commit{}
		n.app.PreRunBlock(block)
		if !n.app.CheckBlock(block) {
			t.Fatalf("CheckBlock refused the block")
		}
		pr := n.app.processMap[block.Hash()]
		if pr == nil || !pr.isOk {
			t.Fatalf("no process result")
		}
		pr.txsResult.SetKeyImages([]*lctypes.Key{&ki})
		pr.txsResult.SetUTXOOutputs([]*types.UTXOOutputData{out})
		parts := block.MakePartSet(types.DefaultConsensusParams().BlockGossip.BlockPartSizeBytes)
		c.mu.Lock()
		c.n, c.at, c.log = 0, at, nil
		c.mu.Unlock()
		if _, err := n.app.CommitBlock(block, parts, &types.Commit{}, false); err != nil {
			t.Fatalf("CommitBlock: %v", err)
		}
		c.mu.Lock()
		defer c.mu.Unlock()
		return append([]string(nil), c.log...), at > 0 && c.n >= at
	}

	writes, _ := commit(fresh(), 0)
	if len(writes) < 3 {
		t.Fatalf("the commit made only %d writes: %v", len(writes), writes)
	}
	nfail, cases, knownN := 0, 0, 0
	firstKnown := ""
	for k := 1; k <= len(writes)+1; k++ {
		d := fresh()
		done, crashed := commit(d, k)
		if k <= len(writes) && !crashed {
			nfail++
			fmt.Printf("BOUNDED-FAIL: write %d was expected to be reached\n", k)
			continue
		}
		// restart
		n, err := c13Open(d, &c13Ctl{})
		cases++
		if err != nil {
			nfail++
			fmt.Printf("BOUNDED-FAIL: crash before write %d (after %v): the node does not come up again: %v\n", k, done, err)
			continue
		}
		h := n.bs.Height()
		hasKI := n.us.HaveTxKeyimgAsSpent(&ki)
		nOut := n.us.GetMaxUtxoOutputSeq(common.EmptyAddress)
		// what reached the databases in THIS run (SaveBlock writes from several goroutines: the order varies)
		where := "after " + strings.Join(done, " ")
		if h >= 1 && (!hasKI || nOut < 0) {
			if strings.Contains(known, "utxo-store-behind-block-store") {
				knownN++
				if firstKnown == "" {
					firstKnown = fmt.Sprintf("crash before write %d of %d (%s): block store height %d, key image recorded %v, outputs indexed %d", k, len(writes), where, h, hasKI, nOut+1)
				}
			} else {
				nfail++
				fmt.Printf("BOUNDED-FAIL: crash before write %d of %d (%s): after restart the block store is at height %d but key image recorded=%v, confidential outputs indexed=%d\n", k, len(writes), where, h, hasKI, nOut+1)
			}
		}
		if h == 0 && hasKI {
			nfail++
			fmt.Printf("BOUNDED-FAIL: crash before write %d (%s): key image recorded for a block the block store does not have\n", k, where)
		}
		if h == 0 {
			// the block was not acknowledged: the restarted node must be able to commit it now, and end up whole
			func() {
				defer func() {
					if r := recover(); r != nil {
						nfail++
						fmt.Printf("BOUNDED-FAIL: crash before write %d (%s): committing the block again after the restart panics: %v\n", k, where, r)
					}
				}()
				commit(d, 0)
				n2, err := c13Open(d, &c13Ctl{})
				cases++
				if err != nil || n2.bs.Height() != 1 || !n2.us.HaveTxKeyimgAsSpent(&ki) || n2.us.GetMaxUtxoOutputSeq(common.EmptyAddress) < 0 {
					nfail++
					fmt.Printf("BOUNDED-FAIL: crash before write %d (%s): after restart and a second commit the node is not whole (err %v)\n", k, where, err)
				}
			}()
		}
	}
	if knownN > 0 {
		fmt.Printf("KNOWN-FINDING: property=C13 CommitBlock writes the block store before the key-image and confidential-output stores and nothing at start-up compares them: after a crash in between, the restarted node acknowledges the block while its key images are not marked spent and its outputs are not indexed (%d of %d crash points; first: %s)\n", knownN, cases, firstKnown)
	}
	fmt.Printf("BOUNDED-CASES: %d crash points of one CommitBlock (%d database writes: %s), restart after each, %d failures\n", cases, len(writes), strings.Join(writes, " "), nfail)
	if nfail > 0 {
		t.Fatalf("%d failures", nfail)
	}
}
