package consensus

// Bounded stand-in for C16 (labelled bounded, never counted as proved): the round's proposer - a single peer - sends
// a correctly signed proposal whose parts decode to a Block that lacks components. For every non-empty subset of
// {Header, Data, LastCommit} left out (and for a block with everything but an empty header), the completed part set
// must be refused, the round state must hold no proposal block afterwards ("state unaffected by invalid input"), and
// the steps the state machine takes next on its own - the propose timeout, the prevote timeout - must not panic.

import (
	"fmt"
	"runtime/debug"
	"testing"

	cstypes "github.com/lianxiangcloud/linkchain/consensus/types"
	cmn "github.com/lianxiangcloud/linkchain/libs/common"
	tmevents "github.com/lianxiangcloud/linkchain/libs/events"
	"github.com/lianxiangcloud/linkchain/libs/log"
	"github.com/lianxiangcloud/linkchain/libs/ser"
	"github.com/lianxiangcloud/linkchain/types"
)

func TestBoundedC16PartialBlock(t *testing.T) {
	const chainID = "bounded-c16"
	const height, round = uint64(5), 0
	nfail, cases := 0, 0
	fail := func(format string, a ...interface{}) {
		nfail++
		if nfail <= 8 {
			fmt.Printf("BOUNDED-FAIL: "+format+"\n", a...)
		}
	}
	for mask := 1; mask < 8; mask++ {
		for _, partSize := range []int{64, 4096} {
			cases++
			name := fmt.Sprintf("block without%s%s%s (part size %d)", map[bool]string{true: " Header"}[mask&1 != 0], map[bool]string{true: " Data"}[mask&2 != 0], map[bool]string{true: " LastCommit"}[mask&4 != 0], partSize)
			b := &types.Block{}
			if mask&1 == 0 {
				b.Header = &types.Header{ChainID: chainID, Height: height}
			}
			if mask&2 == 0 {
				b.Data = &types.Data{}
			}
			if mask&4 == 0 {
				b.LastCommit = &types.Commit{}
			}
			bz, err := ser.EncodeToBytes(b)
			if err != nil {
				continue // not expressible on the wire: nothing to send
			}
			valSet, privVals := types.RandValidatorSet(1, 10)
			parts := types.NewPartSetFromData(bz, partSize)
			proposal := types.NewProposal(height, round, parts.Header(), -1, types.BlockID{})
			if err := privVals[0].SignProposal(chainID, proposal); err != nil {
				t.Fatal(err)
			}
			cs := &ConsensusState{wal: nilWAL{}, evsw: tmevents.NewEventSwitch(), metrics: NopMetrics(), internalMsgQueue: make(chan msgInfo, 64), blockExec: &BlockExecutor{}}
			cs.BaseService = *cmn.NewBaseService(nil, "ConsensusState", cs)
			cs.setProposal = cs.defaultSetProposal
			cs.doPrevote = cs.defaultDoPrevote
			cs.decideProposal = cs.defaultDecideProposal
			cs.eventBus = types.NewEventBus()
			cs.eventBus.Start()
			cs.timeoutTicker = &b16pTicker{}
			cs.status.ChainID = chainID
			cs.status.LastBlockHeight = height - 1
			cs.status.ConsensusParams = *types.DefaultConsensusParams()
			cs.status.Validators = valSet
			cs.status.LastValidators = valSet
			cs.Height, cs.Round, cs.Step = height, round, cstypes.RoundStepPropose
			cs.Validators = valSet
			cs.Votes = cstypes.NewHeightVoteSet(chainID, height, valSet)
			panicked := false
			deliver := func(what string, f func()) {
				defer func() {
					if r := recover(); r != nil {
						panicked = true
						fail("%s: the state machine panics while handling %s: %v\n%s", name, what, r, firstLines(string(debug.Stack()), 14))
					}
				}()
				f()
			}
			deliver("the proposal", func() { cs.handleMsg(msgInfo{Msg: &ProposalMessage{Proposal: proposal}, PeerID: "proposer"}) })
			if cs.ProposalBlockParts == nil {
				cs.eventBus.Stop()
				continue // the proposal itself was not admitted (e.g. part count): nothing further to deliver
			}
			for i := 0; i < parts.Total() && !panicked; i++ {
				part := parts.GetPart(i)
				deliver("a block part", func() {
					cs.handleMsg(msgInfo{Msg: &BlockPartMessage{Height: height, Round: round, Part: part}, PeerID: "proposer"})
				})
			}
			if !panicked && cs.ProposalBlock != nil {
				fail("%s: the refused block stays in the round state (Header %v, Data %v, LastCommit %v; proposal complete: %v)", name, cs.ProposalBlock.Header != nil, cs.ProposalBlock.Data != nil, cs.ProposalBlock.LastCommit != nil, cs.isProposalComplete())
			}
			if !panicked {
				deliver("the propose timeout after the refused block", func() {
					cs.handleTimeout(timeoutInfo{Height: height, Round: round, Step: cstypes.RoundStepPropose}, cs.RoundState)
				})
			}
			if !panicked {
				deliver("the prevote timeout after the refused block", func() {
					cs.handleTimeout(timeoutInfo{Height: height, Round: round, Step: cstypes.RoundStepPrevoteWait}, cs.RoundState)
				})
			}
			cs.eventBus.Stop()
		}
	}
	fmt.Printf("BOUNDED-CASES: %d signed proposals whose parts decode to a block lacking components (7 subsets of Header/Data/LastCommit x 2 part sizes), each followed by the propose and prevote timeouts, %d failures\n", cases, nfail)
	if nfail > 0 {
		t.Fatalf("%d failures", nfail)
	}
}

type b16pTicker struct{}

func (*b16pTicker) Start() error                { return nil }
func (*b16pTicker) Stop() error                 { return nil }
func (*b16pTicker) Reset() error                { return nil }
func (*b16pTicker) Chan() <-chan timeoutInfo    { return nil }
func (*b16pTicker) SetLogger(log.Logger)        {}
func (*b16pTicker) ScheduleTimeout(timeoutInfo) {}

func firstLines(s string, n int) string {
	out, c := "", 0
	for _, ch := range s {
		if ch == '\n' {
			c++
			if c >= n {
				break
			}
		}
		out += string(ch)
	}
	return out
}
