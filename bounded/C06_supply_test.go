package app

// Bounded stand-in for C06, account side (labelled bounded, never counted as proved): on a real LinkApplication
// (with a fee handler installed, as in production, so that block fees are credited to the foundation address)
// the sum of the native balances of every address a block can touch - senders, recipients, created contracts, the
// foundation, the coinbase - is the same before and after every committed block. Blocks: plain transfers, a
// transfer to a fresh account, a transfer whose value exceeds the balance (fails, fee only), a contract creation
// carrying value, a call with value to the created contract that succeeds, a call with value that reverts, a
// creation that runs out of gas.

import (
	"encoding/hex"
	"fmt"
	"io/ioutil"
	"math/big"
	"os"
	"testing"

	"github.com/lianxiangcloud/linkchain/blockchain"
	"github.com/lianxiangcloud/linkchain/config"
	"github.com/lianxiangcloud/linkchain/libs/common"
	"github.com/lianxiangcloud/linkchain/libs/crypto"
	lctypes "github.com/lianxiangcloud/linkchain/libs/cryptonote/types"
	dbm "github.com/lianxiangcloud/linkchain/libs/db"
	"github.com/lianxiangcloud/linkchain/libs/log"
	"github.com/lianxiangcloud/linkchain/libs/ser"
	"github.com/lianxiangcloud/linkchain/libs/txmgr"
	"github.com/lianxiangcloud/linkchain/metrics"
	"github.com/lianxiangcloud/linkchain/types"
	"github.com/lianxiangcloud/linkchain/utxo"
	"github.com/lianxiangcloud/linkchain/vm/wasm"
)

type c06Mempool struct{ txs types.Txs }

func (m *c06Mempool) Reap(int) types.Txs                { return m.txs }
func (*c06Mempool) Update(uint64, types.Txs) error      { return nil }
func (*c06Mempool) GetTxFromCache(common.Hash) types.Tx { return nil }
func (*c06Mempool) Lock()                               {}
func (*c06Mempool) Unlock()                             {}
func (*c06Mempool) KeyImageExists(lctypes.Key) bool     { return false }
func (*c06Mempool) KeyImagePush(lctypes.Key) bool       { return true }
func (*c06Mempool) KeyImageRemoveKeys([]*lctypes.Key)   {}
func (*c06Mempool) KeyImageReset()                      {}

func TestBoundedC06Supply(t *testing.T) {
	if dir, err := ioutil.TempDir("", "verifbounded"); err == nil {
		defer os.RemoveAll(dir)
		os.Chdir(dir)
	}
	sk := crypto.GenPrivKeySecp256k1()
	metrics.PrometheusMetricInstance.Init(config.DefaultConfig(), sk.PubKey(), log.NewNopLogger())
	metrics.PrometheusMetricInstance.SetCurrentProposerPubkey(sk.PubKey())
	metrics.PrometheusMetricInstance.SetRole(types.NodePeer)

	keyA, _ := crypto.GenerateKey()
	keyB, _ := crypto.GenerateKey()
	addrA, addrB := crypto.PubkeyToAddress(keyA.PublicKey), crypto.PubkeyToAddress(keyB.PublicKey)
	fresh := common.Address{0x71}
	gp := big.NewInt(types.ParGasPrice)
	one := big.NewInt(1e18)
	fee := func(v *big.Int) uint64 { return types.CalNewAmountGas(v, types.EverLiankeFee) }
	sign := func(tx *types.Transaction, a bool) *types.Transaction {
		k := keyB
		if a {
			k = keyA
		}
		if err := tx.Sign(types.GlobalSTDSigner, k); err != nil {
			t.Fatal(err)
		}
		return tx
	}
	// runtime: revert if calldata is empty, otherwise stop (keeps the value it was sent)
	runtime, _ := hex.DecodeString("3615600757005b60006000fd")
	runtime, _ = hex.DecodeString("36600957" + "60006000fd" + "5b00") // CALLDATASIZE PUSH1 8 JUMPI | PUSH1 0 PUSH1 0 REVERT | JUMPDEST STOP
	initCode := append([]byte{0x60, byte(len(runtime)), 0x60, 0x0c, 0x60, 0x00, 0x39, 0x60, byte(len(runtime)), 0x60, 0x00, 0xf3}, runtime...)
	contractAddr := crypto.CreateAddress(addrA, 1, initCode)
	loopCode, _ := hex.DecodeString("5b600056") // JUMPDEST PUSH1 0 JUMP: runs until the gas is gone
	oogCreate := crypto.CreateAddress(addrA, 4, loopCode)
	blocks := []types.Txs{
		{
			sign(types.NewTransaction(0, fresh, one, fee(one), gp, nil), true),
			sign(types.NewContractCreation(1, one, 3000000, gp, initCode), true), // creation carrying one unit
			sign(types.NewTransaction(0, addrA, one, fee(one), gp, nil), false),
		},
		{
			sign(types.NewTransaction(2, contractAddr, one, 3000000, gp, []byte{1}), true), // succeeds, value stays in the contract
			sign(types.NewTransaction(3, contractAddr, one, 3000000, gp, nil), true),       // reverts, value returns
			sign(types.NewTransaction(1, fresh, new(big.Int).Mul(one, big.NewInt(893)), fee(new(big.Int).Mul(one, big.NewInt(893))), gp, nil), false), // more than B has
		},
		{
			sign(types.NewContractCreation(4, one, 600000, gp, loopCode), true), // the creation runs out of gas
			sign(types.NewTransaction(5, addrB, one, fee(one), gp, nil), true),
		},
	}

	bs := blockchain.NewBlockStore(dbm.NewMemDB())
	g := &types.Block{Header: &types.Header{Height: 0, Time: 1507737600, GasLimit: types.DefaultConsensusParams().BlockSize.MaxGas}, Data: &types.Data{}, LastCommit: &types.Commit{}}
	bs.SaveBlock(g, g.MakePartSet(types.DefaultConsensusParams().BlockGossip.BlockPartSizeBytes), nil, nil, &types.TxsResult{})
	cross := txmgr.NewCrossState(dbm.NewMemDB(), bs)
	bs.SetCrossState(cross)
	us := utxo.NewUtxoStore(dbm.NewMemDB(), dbm.NewMemDB(), dbm.NewMemDB())
	us.SetLogger(log.NewNopLogger())
	// a fee handler is installed (production installs app.SetPoceeds, which additionally calls the foundation contract)
	handler := func(w *wasm.WASM, coinbase common.Address, amount *big.Int, logger log.Logger) error { return nil }
	a, err := NewLinkApplication(dbm.NewMemDB(), bs, us, cross, types.NewEventBus(), false, blockchain.NewBalanceRecordStore(dbm.NewMemDB(), false), handler, nil)
	if err != nil {
		t.Fatal(err)
	}
	mp := &c06Mempool{}
	a.SetMempool(mp)
	a.SetLastChangedVals(0, nil)
	a.storeState.AddBalance(addrA, new(big.Int).Mul(one, big.NewInt(1000)))
	a.storeState.AddBalance(addrB, new(big.Int).Mul(one, big.NewInt(10)))
	a.checkTxState.AddBalance(addrA, new(big.Int).Mul(one, big.NewInt(1000)))
	a.checkTxState.AddBalance(addrB, new(big.Int).Mul(one, big.NewInt(10)))

	watch := []common.Address{addrA, addrB, fresh, contractAddr, oogCreate, config.ContractFoundationAddr, common.EmptyAddress}
	total := func() *big.Int {
		s := new(big.Int)
		for _, x := range watch {
			s.Add(s, a.storeState.GetBalance(x))
		}
		return s
	}
	nfail, cases := 0, 0
	before := total()
	for i, txs := range blocks {
		mp.txs = txs
		b := a.CreateBlock(uint64(i+1), 100, 1e9, 1507737700+uint64(i))
		b.LastCommit = &types.Commit{}
		a.PreRunBlock(b)
		bz, _ := ser.EncodeToBytes(b)
		nb := new(types.Block)
		if err := ser.DecodeBytes(bz, nb); err != nil {
			t.Fatal(err)
		}
		if !a.CheckBlock(nb) {
			t.Fatalf("block %d refused", i+1)
		}
		if _, err := a.CommitBlock(nb, nb.MakePartSet(types.DefaultConsensusParams().BlockGossip.BlockPartSizeBytes), &types.Commit{}, false); err != nil {
			t.Fatalf("CommitBlock: %v", err)
		}
		cases++
		after := total()
		if after.Cmp(before) != 0 {
			nfail++
			detail := ""
			for _, x := range watch {
				detail += fmt.Sprintf(" %x=%v", x[:2], a.storeState.GetBalance(x))
			}
			fmt.Printf("BOUNDED-FAIL: block %d: the sum of native balances went from %v to %v (difference %v);%s\n", i+1, before, after, new(big.Int).Sub(after, before), detail)
		}
		before = after
	}
	if a.storeState.GetBalance(contractAddr).Cmp(new(big.Int).Mul(one, big.NewInt(2))) != 0 {
		nfail++
		fmt.Printf("BOUNDED-FAIL: the contract holds %v, expected 2 units (creation value + the successful call; the reverted call's value returns)\n", a.storeState.GetBalance(contractAddr))
	}
	fmt.Printf("BOUNDED-CASES: %d committed blocks (8 transactions: transfers, overdrawn transfer, creation with value, successful and reverting calls with value, creation out of gas), %d failures\n", cases, nfail)
	if nfail > 0 {
		t.Fatalf("%d failures", nfail)
	}
}
