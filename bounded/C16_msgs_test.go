package consensus

// Bounded stand-in for C16 (labelled bounded, never counted as proved): seeded well-typed consensus messages with
// boundary field values (heights 0/1/2/2^64-1, rounds -1/0/1/maxint, indices -64/-1/0/3/4/2^40, part totals
// -1/0/1/2^34/2^62, bit arrays whose bit and word counts disagree, empty hashes, nil optional components), each
// passed through the wire codec (encode, decodeMsg) first.
//   machine   the three kinds the reactor queues for the state machine (proposal, block part, vote; components
//             non-nil, as Receive dereferences them before queueing) are handed to handleMsg of a real ConsensusState
//             in five states (new height; proposing; proposal known, parts missing; prevoted; height 1 with a
//             precommit for height 0 arriving): no panic, and height/round/step do not move;
//   peer      all message kinds are applied to a real PeerState the way Receive does (a panic there only drops the
//             peer and is tolerated), and after every message the gossip goroutines' reads are executed WITHOUT
//             recover, as in the goroutines: PickVoteToSend on our prevotes and precommits, the part selection of
//             gossipDataRoutine and of the catch-up path. A panic there ends the process: failure. Allocation per
//             message is bounded (64 MiB).

import (
	"fmt"
	"math"
	"math/rand"
	"os"
	"runtime"
	"testing"
	"time"

	cfg "github.com/lianxiangcloud/linkchain/config"
	cstypes "github.com/lianxiangcloud/linkchain/consensus/types"
	cmn "github.com/lianxiangcloud/linkchain/libs/common"
	dbm "github.com/lianxiangcloud/linkchain/libs/db"
	"github.com/lianxiangcloud/linkchain/libs/log"
	"github.com/lianxiangcloud/linkchain/libs/ser"
	"github.com/lianxiangcloud/linkchain/types"
)

type b16App struct{ created int }

func (a *b16App) Height() uint64                                 { return 0 }
func (a *b16App) LoadBlockMeta(uint64) *types.BlockMeta          { return nil }
func (a *b16App) LoadBlock(uint64) *types.Block                  { return nil }
func (a *b16App) LoadBlockPart(uint64, int) *types.Part          { return nil }
func (a *b16App) LoadBlockCommit(uint64) *types.Commit           { return nil }
func (a *b16App) LoadSeenCommit(uint64) *types.Commit            { return nil }
func (a *b16App) GetValidators(uint64) []*types.Validator        { return nil }
func (a *b16App) GetRecoverValidators(uint64) []*types.Validator { return nil }
func (a *b16App) PreRunBlock(*types.Block)                       {}
func (a *b16App) CheckBlock(*types.Block) bool                   { return true }
func (a *b16App) SetLastChangedVals(uint64, []*types.Validator)  {}
func (a *b16App) CreateBlock(height uint64, maxTxs int, gasLimit uint64, timeUnix uint64) *types.Block {
	a.created++
	b := types.MakeBlock(height, nil, &types.Commit{})
	b.Header.Time = uint64(a.created)
	b.DataHash = b.Data.Hash()
	return b
}
func (a *b16App) CommitBlock(*types.Block, *types.PartSet, *types.Commit, bool) ([]*types.Validator, error) {
	return nil, nil
}

type b16Ticker struct {
	armed *timeoutInfo
	c     chan timeoutInfo
}

func (t *b16Ticker) Start() error                   { return nil }
func (t *b16Ticker) Stop() error                    { return nil }
func (t *b16Ticker) Reset() error                   { return nil }
func (t *b16Ticker) Chan() <-chan timeoutInfo       { return t.c }
func (t *b16Ticker) SetLogger(log.Logger)           {}
func (t *b16Ticker) ScheduleTimeout(ti timeoutInfo) { c := ti; t.armed = &c }

func TestBoundedC16(t *testing.T) {
	seed := int64(1)
	fmt.Sscan(os.Getenv("VERIF_SEED"), &seed)
	per := 400
	if os.Getenv("VERIF_TIER") == "thorough" {
		per = 8000
	}
	old := log.Root().GetHandler()
	log.Root().SetHandler(log.DiscardHandler())
	defer log.Root().SetHandler(old)
	nop := log.NewNopLogger()
	rng := rand.New(rand.NewSource(seed))
	heights := []uint64{0, 1, 1, 1, 2, math.MaxUint64}
	ints := []int{-64, -1, 0, 0, 1, 3, 4, 63, 64, 1 << 40, math.MaxInt64, math.MinInt64}
	totals := []int{-1, 0, 1, 2, 1 << 34, 1 << 62, math.MaxInt64}
	pick := func() int { return ints[rng.Intn(len(ints))] }
	var hh cmn.Hash
	hh[0] = 7
	ba := func() *cmn.BitArray {
		switch rng.Intn(7) {
		case 0:
			return nil
		case 1:
			return cmn.NewBitArray(1 + rng.Intn(130))
		case 2:
			return &cmn.BitArray{Bits: 1 + rng.Intn(200), Elems: nil}
		case 3:
			return &cmn.BitArray{Bits: 1, Elems: make([]uint64, 3)}
		case 4:
			return &cmn.BitArray{Bits: -5, Elems: make([]uint64, 1)}
		case 5:
			return &cmn.BitArray{Bits: 0, Elems: nil}
		default:
			b := cmn.NewBitArray(4)
			b.SetIndex(rng.Intn(4), true)
			return b
		}
	}
	psh := func() types.PartSetHeader {
		h := types.PartSetHeader{Total: totals[rng.Intn(len(totals))]}
		if rng.Intn(2) == 0 {
			h.Hash = []byte{1, 2, 3}
		}
		return h
	}
	bid := func() types.BlockID {
		if rng.Intn(3) == 0 {
			return types.BlockID{}
		}
		return types.BlockID{Hash: hh, PartsHeader: psh()}
	}
	vote := func() *types.Vote {
		return &types.Vote{ValidatorAddress: []byte{1, 2}, ValidatorIndex: pick(), ValidatorSize: pick(), Height: heights[rng.Intn(len(heights))], Round: pick(),
			Timestamp: time.Unix(int64(rng.Intn(3)), 0).UTC(), Type: byte(rng.Intn(4)), BlockID: bid()}
	}
	gen := func(kind int) ConsensusMessage {
		switch kind {
		case 0:
			return &NewRoundStepMessage{heights[rng.Intn(len(heights))], pick(), cstypes.RoundStepType(rng.Intn(12)), pick(), pick()}
		case 1:
			return &CommitStepMessage{heights[rng.Intn(len(heights))], psh(), ba()}
		case 2:
			return &ProposalMessage{&types.Proposal{Height: heights[rng.Intn(len(heights))], Round: pick(), Timestamp: time.Unix(1, 0).UTC(), BlockPartsHeader: psh(), POLRound: pick(), POLBlockID: bid(), Type: types.ProposalTypeNormal}}
		case 3:
			return &ProposalPOLMessage{heights[rng.Intn(len(heights))], pick(), ba()}
		case 4:
			p := &types.Part{Index: pick(), Bytes: []byte{1, 2, 3}}
			if rng.Intn(2) == 0 {
				p.Proof.Aunts = [][]byte{{1}, nil, {}}
			}
			return &BlockPartMessage{heights[rng.Intn(len(heights))], pick(), p}
		case 5:
			return &VoteMessage{vote()}
		case 6:
			return &HasVoteMessage{heights[rng.Intn(len(heights))], pick(), byte(rng.Intn(4)), pick()}
		case 7:
			return &VoteSetMaj23Message{heights[rng.Intn(len(heights))], pick(), byte(rng.Intn(4)), bid()}
		default:
			return &VoteSetBitsMessage{heights[rng.Intn(len(heights))], pick(), byte(rng.Intn(4)), bid(), ba()}
		}
	}
	wire := func(m ConsensusMessage) ConsensusMessage {
		bz, err := ser.EncodeToBytesWithType(m)
		if err != nil {
			return nil
		}
		out, err := decodeMsg(bz)
		if err != nil {
			return nil
		}
		return out
	}
	nfail, cases := 0, 0
	fail := func(format string, a ...interface{}) {
		nfail++
		if nfail <= 6 {
			fmt.Printf("BOUNDED-FAIL: "+format+"\n", a...)
		}
	}
	// ---- machine
	pvs := []types.PrivValidator{types.NewMockPV(), types.NewMockPV(), types.NewMockPV(), types.NewMockPV()}
	var gvals []types.GenesisValidator
	for i, pv := range pvs {
		gvals = append(gvals, types.GenesisValidator{PubKey: pv.GetPubKey(), Power: 10, Name: fmt.Sprint(i)})
	}
	genDoc := &types.GenesisDoc{ChainID: "verif-c16", Validators: gvals}
	mkCS := func(state int) *ConsensusState {
		status, _ := MakeGenesisStatus(genDoc)
		db := dbm.NewMemDB()
		SaveStatus(db, status)
		config := cfg.TestConsensusConfig()
		cs := NewConsensusState(config, status, NewBlockExecutor(db, nop, MockEvidencePool{}), &b16App{}, MockMempool{}, MockEvidencePool{})
		cs.SetLogger(nop)
		// the validator that proposes round 0, so that state 1 has a proposal of its own
		for _, pv := range pvs {
			if string(pv.GetAddress()) == string(cs.Validators.GetProposer().Address) {
				cs.SetPrivValidator(pv)
			}
		}
		tick := &b16Ticker{c: make(chan timeoutInfo)}
		cs.SetTimeoutTicker(tick)
		bus := types.NewEventBus()
		bus.SetLogger(nop)
		bus.Start()
		cs.SetEventBus(bus)
		drain := func() {
			for {
				select {
				case mi := <-cs.internalMsgQueue:
					if state != 2 || fmt.Sprintf("%T", mi.Msg) != "*consensus.BlockPartMessage" { // state 2: the parts never arrive
						cs.handleMsg(mi)
					}
				default:
					return
				}
			}
		}
		if state >= 1 {
			cs.scheduleRound0(&cs.RoundState)
			cs.handleTimeout(*tick.armed, cs.RoundState) // NewHeight -> round 0: proposes
			if state == 1 {
				return cs // own proposal and vote still queued
			}
			drain()
		}
		return cs
	}
	for state := 0; state <= 3; state++ {
		for i := 0; i < per; i++ {
			m := wire(gen([]int{2, 4, 5}[rng.Intn(3)]))
			if m == nil {
				continue
			}
			cs := mkCS(state)
			h, r, s := cs.Height, cs.Round, cs.Step
			cases++
			func() {
				defer func() {
					if x := recover(); x != nil {
						fail("state %d: handleMsg panics on %v: %v", state, m, x)
					}
				}()
				var m0, m1 runtime.MemStats
				runtime.ReadMemStats(&m0)
				cs.handleMsg(msgInfo{m, "peer"})
				runtime.ReadMemStats(&m1)
				if d := (m1.TotalAlloc - m0.TotalAlloc) >> 20; d > 64 {
					fail("state %d: handling %v allocated %d MiB", state, m, d)
				}
			}()
			if cs.Height != h || cs.Round != r || (cs.Step != s && state != 1) {
				fail("state %d: an unsigned message %v moved the state machine from %d/%d/%v to %d/%d/%v", state, m, h, r, s, cs.Height, cs.Round, cs.Step)
			}
			if i > per/8 && state != 0 { // building a started state is the expensive part: fewer of them
				i += 3
			}
		}
	}
	// ---- peer
	vs, _ := types.RandValidatorSet(4, 1)
	for round := 0; round < per/4; round++ {
		// fresh objects every round: a panic inside one of them may leave its lock held
		ours := []*types.VoteSet{types.NewVoteSet("c", 1, 0, types.VoteTypePrevote, vs), types.NewVoteSet("c", 1, 0, types.VoteTypePrecommit, vs),
			types.NewVoteSet("c", 1, 1, types.VoteTypePrevote, vs), types.NewVoteSet("c", 2, 0, types.VoteTypePrecommit, vs)}
		ourParts := types.NewPartSetFromData(make([]byte, 200), 64)
		broken := false
		ps := NewPeerState(nil).SetLogger(nop)
		ps.PRS.Height, ps.PRS.Round = 1, 0
		for i := 0; i < 12 && !broken; i++ {
			m := wire(gen(rng.Intn(9)))
			if m == nil {
				continue
			}
			cases++
			var m0, m1 runtime.MemStats
			runtime.ReadMemStats(&m0)
			func() {
				defer func() { recover() }() // Receive runs under the connection's recover: the peer is dropped
				switch msg := m.(type) {
				case *NewRoundStepMessage:
					ps.ApplyNewRoundStepMessage(msg)
				case *CommitStepMessage:
					if rng.Intn(2) == 0 {
						msg.BlockPartsHeader = ourParts.Header() // a peer that knows the block being committed
					}
					ps.ApplyCommitStepMessage(msg)
				case *ProposalMessage:
					ps.SetHasProposal(msg.Proposal)
				case *ProposalPOLMessage:
					ps.ApplyProposalPOLMessage(msg)
				case *BlockPartMessage:
					ps.SetHasProposalBlockPart(msg.Height, msg.Round, msg.Part.Index)
				case *VoteMessage:
					ps.EnsureVoteBitArrays(1, 4)
					ps.EnsureVoteBitArrays(0, 4)
					ps.SetHasVote(msg.Vote)
				case *HasVoteMessage:
					ps.ApplyHasVoteMessage(msg)
				case *VoteSetBitsMessage:
					ps.ApplyVoteSetBitsMessage(msg, nil)
					ps.ApplyVoteSetBitsMessage(msg, cmn.NewBitArray(4))
				}
			}()
			runtime.ReadMemStats(&m1)
			if d := (m1.TotalAlloc - m0.TotalAlloc) >> 20; d > 64 {
				fail("applying %v to the peer state allocated %d MiB", m, d)
			}
			// what the gossip goroutines do next, without recover
			func() {
				defer func() {
					if x := recover(); x != nil {
						broken = true // locks may be left held: this peer state and these vote sets are not used again
						fail("after %v the gossip step panics (no recover in the goroutine): %v", m, x)
					}
				}()
				for _, v := range ours {
					ps.PickVoteToSend(v)
				}
				prs := ps.GetRoundState()
				if ourParts.HasHeader(prs.ProposalBlockPartsHeader) {
					ourParts.BitArray().Sub(prs.ProposalBlockParts.Copy()).PickRandom()
				}
				prs.ProposalBlockParts.Not().PickRandom()
			}()
		}
	}
	fmt.Printf("BOUNDED-CASES: %d messages (boundary-valued, through the wire codec; three kinds into handleMsg in four states, nine kinds into a peer state followed by the gossip reads), %d failures\n", cases, nfail)
	if nfail > 0 {
		t.Fatalf("%d failures", nfail)
	}
}
