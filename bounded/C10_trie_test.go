package trie

// Bounded stand-in for C10 (labelled bounded, never counted as proved): exhaustive histories over a crafted key
// pool, run against the real trie code of the working tree. Bound: see tierBound().
// For every history: root == root of a fresh trie built from the final content in sorted order (canonical root);
// every pool key looks up its last written value; Prove/VerifyProof agree with lookup for present and absent keys;
// every single-byte tampering of every proof node (re-keyed by its new hash) is rejected or returns a different
// value only with an error; the iterator yields exactly the content in key order. Plain and secure tries.

import (
	"bytes"
	"fmt"
	"os"
	"sort"
	"strings"
	"testing"

	"github.com/lianxiangcloud/linkchain/libs/common"
	"github.com/lianxiangcloud/linkchain/libs/crypto"
	dbm "github.com/lianxiangcloud/linkchain/libs/db"
)

var bPool = [][]byte{
	{}, {0x12}, {0x12, 0x34}, {0x12, 0x35}, {0x12, 0x34, 0x56}, {0x13}, {0xff}, {0x12, 0x34, 0x57, 0x00},
	bytes.Repeat([]byte{0xab}, 32), append(bytes.Repeat([]byte{0xab}, 31), 0xac),
}

type bOp struct {
	k   int
	del bool
}

func bPermute(a []int, f func([]int)) {
	var rec func(k int)
	rec = func(k int) {
		if k == len(a) {
			f(a)
			return
		}
		for i := k; i < len(a); i++ {
			a[k], a[i] = a[i], a[k]
			rec(k + 1)
			a[k], a[i] = a[i], a[k]
		}
	}
	rec(0)
}

func bVal(i int, big bool) []byte {
	if big {
		return append([]byte{byte(i + 1)}, bytes.Repeat([]byte{0xcd}, 40)...) // forces hashed (non-embedded) nodes
	}
	return []byte{byte(i + 1), 0xaa}
}

type bTrie interface {
	TryUpdate(key, value []byte) error
	TryDelete(key []byte) error
	TryGet(key []byte) ([]byte, error)
	Hash() common.Hash
}

func TestBoundedC10(t *testing.T) {
	size := 5
	if os.Getenv("VERIF_TIER") == "thorough" {
		size = 6
	}
	nfail, count, knownPrefixOrder := 0, 0, 0
	fail := func(format string, a ...interface{}) {
		nfail++
		if nfail <= 5 {
			fmt.Printf("BOUNDED-FAIL: "+format+"\n", a...)
		}
	}
	check := func(ops []bOp, big, secure, toDisk bool) {
		count++
		content := map[int][]byte{}
		for i, o := range ops {
			if o.del {
				delete(content, o.k)
			} else {
				content[o.k] = bVal(i, big)
			}
		}
		var ks []int
		for k := range content {
			ks = append(ks, k)
		}
		sort.Slice(ks, func(i, j int) bool { return bytes.Compare(bPool[ks[i]], bPool[ks[j]]) < 0 })
		newTrie := func(root common.Hash, db *Database) bTrie {
			if secure {
				st, err := NewSecure(root, db, 0)
				if err != nil {
					t.Fatal(err)
				}
				return st
			}
			tr, err := New(root, db)
			if err != nil {
				t.Fatal(err)
			}
			return tr
		}
		ref := newTrie(common.EmptyHash, NewDatabase(dbm.NewMemDB()))
		for _, k := range ks {
			ref.TryUpdate(bPool[k], content[k])
		}
		want := ref.Hash()
		db := NewDatabase(dbm.NewMemDB())
		tr := newTrie(common.EmptyHash, db)
		for i, o := range ops {
			if o.del {
				tr.TryDelete(bPool[o.k])
			} else {
				tr.TryUpdate(bPool[o.k], bVal(i, big))
			}
			if i == len(ops)/2 {
				var root common.Hash
				var err error
				switch x := tr.(type) {
				case *Trie:
					root, err = x.Commit(nil)
				case *SecureTrie:
					root, err = x.Commit(nil, 0)
				}
				if err != nil {
					t.Fatal(err)
				}
				if toDisk {
					// flush to the key-value store and start over with a fresh node database (nodes come back from disk)
					if err := db.Commit(root, false); err != nil {
						t.Fatal(err)
					}
					db = NewDatabase(db.DiskDB().(dbm.DB))
				}
				// otherwise the nodes are served from the node database's memory cache
				tr = newTrie(root, db)
			}
		}
		got := tr.Hash()
		if got != want {
			fail("root depends on history: secure=%v big=%v ops=%v got %x want %x", secure, big, ops, got[:4], want[:4])
		}
		for k := range bPool {
			v, _ := tr.TryGet(bPool[k])
			if !bytes.Equal(v, content[k]) {
				fail("lookup %x after ops=%v: got %x want %x", bPool[k], ops, v, content[k])
			}
		}
		pt, ok := tr.(*Trie)
		if !ok || got == emptyRoot {
			return
		}
		// proofs (plain trie)
		for k := range bPool {
			proof := dbm.NewMemDB()
			if err := pt.Prove(bPool[k], 0, proof); err != nil {
				fail("Prove(%x): %v", bPool[k], err)
				continue
			}
			pv, _, err := VerifyProof(got, bPool[k], proof)
			if err != nil || !bytes.Equal(pv, content[k]) {
				fail("proof of %x after ops=%v: got %x err %v want %x", bPool[k], ops, pv, err, content[k])
			}
			// tamper: flip one byte in each node, re-key under the new hash (what an adversary can do)
			if count%7 == 0 {
				for _, nk := range proof.Keys() {
					node := proof.Get(nk)
					for pos := 0; pos < len(node); pos += 1 + len(node)/6 {
						bad := append([]byte(nil), node...)
						bad[pos] ^= 0x01
						p2 := dbm.NewMemDB()
						for _, k2 := range proof.Keys() {
							if bytes.Equal(k2, nk) {
								p2.Set(crypto.Keccak256(bad), bad)
							} else {
								p2.Set(k2, proof.Get(k2))
							}
						}
						pv2, _, err2 := VerifyProof(got, bPool[k], p2)
						if err2 == nil && !bytes.Equal(pv2, content[k]) {
							fail("tampered proof of %x accepted with value %x (want %x or an error)", bPool[k], pv2, content[k])
						}
					}
				}
			}
		}
		// iterator: exactly the content, in key order
		it := NewIterator(pt.NodeIterator(nil))
		var seen [][]byte
		for it.Next() {
			seen = append(seen, append([]byte(nil), it.Key...))
			var wantV []byte
			for _, k := range ks {
				if bytes.Equal(bPool[k], it.Key) {
					wantV = content[k]
				}
			}
			if !bytes.Equal(it.Value, wantV) {
				fail("iterator yields %x -> %x, content has %x", it.Key, it.Value, wantV)
			}
		}
		if len(seen) != len(ks) {
			fail("iterator yields %d entries, content has %d (ops=%v)", len(seen), len(ks), ops)
		}
		for i := 1; i < len(seen); i++ {
			if bytes.Compare(seen[i-1], seen[i]) >= 0 {
				if bytes.HasPrefix(seen[i-1], seen[i]) && strings.Contains(os.Getenv("VERIF_KNOWN"), "iterator-prefix-order") {
					// listed known finding: a key that is a strict prefix of other keys is yielded after them
					knownPrefixOrder++
					continue
				}
				fail("iterator out of order: %x before %x", seen[i-1], seen[i])
			}
		}
	}
	bases := [][]int{{0, 1, 2, 3, 4, 5}, {1, 2, 4, 5, 7, 6}, {0, 2, 3, 6, 7, 9}, {2, 3, 4, 8, 9, 0}, {1, 4, 7, 8, 9, 3}}
	for _, base := range bases {
		idx := make([]int, size)
		for i := range idx {
			idx[i] = i
		}
		bPermute(idx, func(p []int) {
			var ops []bOp
			for _, i := range p {
				ops = append(ops, bOp{k: base[i]})
			}
			// delete two of them, re-insert one, overwrite one
			ops = append(ops, bOp{k: base[p[1]], del: true}, bOp{k: base[p[len(p)-1]], del: true}, bOp{k: base[p[1]]}, bOp{k: base[p[0]]})
			for _, big := range []bool{false, true} {
				check(ops, big, false, true)
				check(ops, big, false, false)
				check(ops, big, true, count%2 == 0)
			}
			// delete everything but one
			var ops2 []bOp
			ops2 = append(ops2, ops[:len(p)]...)
			for _, i := range p[1:] {
				ops2 = append(ops2, bOp{k: base[i], del: true})
			}
			check(ops2, false, false, true)
			check(ops2, true, false, false)
		})
	}
	// interrupted Database.Commit: a root that opens from what reached the disk delivers all of its content
	{
		const n = 2500
		var keys, vals [][]byte
		for i := 0; i < n; i++ {
			keys = append(keys, crypto.Keccak256([]byte{byte(i), byte(i >> 8), 7}))
			vals = append(vals, bytes.Repeat([]byte{1, byte(i), byte(i >> 8)}, 24))
		}
		build := func(d dbm.DB) (common.Hash, error) {
			triedb := NewDatabase(d)
			tr, _ := New(common.EmptyHash, triedb)
			for i := range keys {
				tr.TryUpdate(keys[i], vals[i])
			}
			root, err := tr.Commit(nil)
			if err != nil {
				t.Fatal(err)
			}
			return root, triedb.Commit(root, false)
		}
		dry := &bCrashDB{DB: dbm.NewMemDB(), ok: 1 << 30}
		if _, err := build(dry); err != nil {
			t.Fatal(err)
		}
		for crashAfter := 0; crashAfter < dry.commits; crashAfter++ {
			disk := dbm.NewMemDB()
			root, err := build(&bCrashDB{DB: disk, ok: crashAfter})
			count++
			if err == nil {
				fail("interrupted commit (after %d batch writes) reported success", crashAfter)
			}
			re, err := New(root, NewDatabase(disk))
			if err != nil {
				continue // the root did not reach the disk: the caller falls back to an older root
			}
			bad := 0
			for i := range keys {
				if got, err := re.TryGet(keys[i]); err != nil || !bytes.Equal(got, vals[i]) {
					bad++
				}
			}
			if bad > 0 {
				fail("commit interrupted after %d of %d batch writes: the root opens from disk but %d of %d keys are unreadable", crashAfter, dry.commits, bad, n)
			}
		}
	}
	// Copies are independent (state.cachingDB hands out SecureTrie.Copy for every proposal): a trie with uncommitted
	// nodes - hashed or not, after a commit or not - is copied, the copy is written to (overwrites, inserts, deletes
	// through shared branch nodes), and the original must keep every value and its root, and still commit to the root
	// of a fresh trie with its content.
	for variant := 0; variant < 8; variant++ {
		for n := 2; n <= 40; n += 19 {
			count++
			st, err := NewSecure(common.EmptyHash, NewDatabase(dbm.NewMemDB()), 0)
			if err != nil {
				t.Fatal(err)
			}
			key := func(i int) []byte { return []byte(fmt.Sprintf("key-%d", i)) }
			for i := 0; i < n; i++ {
				st.TryUpdate(key(i), []byte(fmt.Sprintf("value-%d", i)))
			}
			if variant&1 != 0 {
				st.Hash()
			}
			if variant&2 != 0 {
				st.Commit(nil, 1)
				st.TryUpdate(key(0), []byte("rewritten")) // dirty nodes on top of committed ones
				st.TryUpdate(key(0), []byte("value-0"))
			}
			want := map[string]string{}
			for i := 0; i < n; i++ {
				want[string(key(i))] = fmt.Sprintf("value-%d", i)
			}
			var rootBefore common.Hash
			if variant&4 != 0 {
				rootBefore = st.Hash()
			}
			cp := st.Copy()
			for i := 0; i < n; i++ {
				switch i % 3 {
				case 0:
					cp.TryUpdate(key(i), []byte("overwritten-in-the-copy"))
				case 1:
					cp.TryDelete(key(i))
				}
			}
			cp.TryUpdate([]byte("only-in-the-copy"), []byte("x"))
			bad := 0
			for k, v := range want {
				if got, err := st.TryGet([]byte(k)); err != nil || string(got) != v {
					bad++
				}
			}
			if got, _ := st.TryGet([]byte("only-in-the-copy")); len(got) != 0 {
				bad++
			}
			if bad > 0 {
				fail("copy independence (variant %d, %d keys): after writes to the copy %d lookups in the original changed", variant, n, bad)
			}
			fresh, _ := NewSecure(common.EmptyHash, NewDatabase(dbm.NewMemDB()), 0)
			for i := 0; i < n; i++ {
				fresh.TryUpdate(key(i), []byte(fmt.Sprintf("value-%d", i)))
			}
			if h := st.Hash(); h != fresh.Hash() || (variant&4 != 0 && h != rootBefore) {
				fail("copy independence (variant %d, %d keys): the original's root changed with writes to the copy", variant, n)
			}
		}
	}
	// Root references are counted (two blocks with an unchanged state root hold the same root twice): a root that was
	// referenced r times and released fewer than r times must still open from the memory cache with all its content;
	// released r times it may be collected.
	for refs := 1; refs <= 3; refs++ {
		for drops := 0; drops < refs; drops++ {
			count++
			db := NewDatabase(dbm.NewMemDB())
			tr, _ := New(common.EmptyHash, db)
			const n = 40
			for i := 0; i < n; i++ {
				tr.TryUpdate([]byte(fmt.Sprintf("ref-key-%d", i)), []byte(fmt.Sprintf("ref-value-%d-%s", i, "padding-padding-padding-padding")))
			}
			root, err := tr.Commit(nil)
			if err != nil {
				t.Fatal(err)
			}
			for r := 0; r < refs; r++ {
				db.Reference(root, common.EmptyHash)
			}
			for d := 0; d < drops; d++ {
				db.Dereference(root)
			}
			re, err := New(root, db)
			bad := 0
			if err != nil {
				bad = n
			} else {
				for i := 0; i < n; i++ {
					if got, err := re.TryGet([]byte(fmt.Sprintf("ref-key-%d", i))); err != nil || !bytes.HasPrefix(got, []byte(fmt.Sprintf("ref-value-%d-", i))) {
						bad++
					}
				}
			}
			if bad > 0 {
				fail("a root referenced %d times and released %d times: %d of %d keys are unreadable from the node cache (%v)", refs, drops, bad, n, err)
			}
		}
	}
	if knownPrefixOrder > 0 {
		fmt.Printf("KNOWN-FINDING: property=C10 the trie iterator yields a key that is a strict prefix of other stored keys after them, not in key order (%d occurrences in this run)\n", knownPrefixOrder)
	}
	fmt.Printf("BOUNDED-CASES: %d histories (key pool of %d, %d keys per history, all permutations, deletes/re-inserts/overwrites, commit+reopen in the middle, small and large values, plain and secure; copy independence; counted root references), %d failures\n", count, len(bPool), size, nfail)
	if nfail > 0 {
		t.Fatalf("%d failures", nfail)
	}
}

// bCrashDB lets the first ok batch commits through and then fails every later one, leaving the store untouched.
type bCrashDB struct {
	dbm.DB
	ok, commits int
	failed      bool
}

func (d *bCrashDB) NewBatch() dbm.Batch { return &bCrashBatch{Batch: d.DB.NewBatch(), db: d} }

type bCrashBatch struct {
	dbm.Batch
	db *bCrashDB
}

func (b *bCrashBatch) Commit() error {
	if b.db.failed || b.db.commits >= b.db.ok {
		b.db.failed = true
		return fmt.Errorf("simulated power loss")
	}
	b.db.commits++
	return b.Batch.Commit()
}

func (b *bCrashBatch) Write() {
	if b.db.failed || b.db.commits >= b.db.ok {
		b.db.failed = true
		return
	}
	b.db.commits++
	b.Batch.Write()
}
