package types

// Bounded stand-in for C17 (labelled bounded, never counted as proved): the rotation and the set operations of
// the real ValidatorSet, enumerated over small validator sets.
//
//   split      IncrementAccum(t) against every way of splitting t into consecutive calls (the property's "all
//              chains of per-block and per-round rotations split in every possible way"): same proposer, same
//              priorities. The class "a batched rotation differs from the same rotation one step at a time" is a
//              listed known finding (VERIF_KNOWN contains split-nonadditive); it is counted and reported as
//              KNOWN-FINDING, every other difference fails.
//   share      one step at a time over k*TotalPower rounds every validator proposes k*power times, give or take one
//              (priorities stay inside (-2*total, 2*total), their sum never changes)
//   identity   Hash and the validator order do not depend on the order the validators were supplied in, on
//              Add/Remove order, or on how far the set has rotated; Update/Add/Remove followed by a fresh
//              construction of the same content give the same Hash and total power
//   clip       extreme powers: totals and priorities saturate (never change sign by wrapping)

import (
	"bytes"
	"fmt"
	"math"
	"os"
	"strings"
	"testing"

	"github.com/lianxiangcloud/linkchain/libs/common"
	"github.com/lianxiangcloud/linkchain/libs/crypto"
)

func bC17Vals(powers []int64) []*Validator {
	vs := make([]*Validator, len(powers))
	for i, p := range powers {
		pk := crypto.GenPrivKeyEd25519FromSecret([]byte{byte('a' + i)})
		vs[i] = NewValidator(pk.PubKey(), common.EmptyAddress, p)
	}
	return vs
}

func bC17State(vs *ValidatorSet) string {
	var b strings.Builder
	for _, v := range vs.Validators {
		fmt.Fprintf(&b, "%x:%d/%d ", v.Address[:2], v.VotingPower, v.Accum)
	}
	if vs.Proposer != nil {
		fmt.Fprintf(&b, "P=%x", vs.Proposer.Address[:2])
	}
	return b.String()
}

// compositions of t into positive parts
func bC17Splits(t int) [][]int {
	if t == 0 {
		return [][]int{nil}
	}
	var out [][]int
	for first := 1; first <= t; first++ {
		for _, rest := range bC17Splits(t - first) {
			out = append(out, append([]int{first}, rest...))
		}
	}
	return out
}

func TestBoundedC17(t *testing.T) {
	known := os.Getenv("VERIF_KNOWN")
	thorough := os.Getenv("VERIF_TIER") == "thorough"
	maxT := 5
	pool := []int64{1, 2, 3, 5}
	if thorough {
		maxT = 7
		pool = []int64{1, 2, 3, 5, 10}
	}
	nfail, cases, knownSplit := 0, 0, 0
	fail := func(format string, a ...interface{}) {
		nfail++
		if nfail <= 6 {
			fmt.Printf("BOUNDED-FAIL: "+format+"\n", a...)
		}
	}
	// every power vector of length 1..4 over the pool
	var vectors [][]int64
	var gen func(cur []int64)
	gen = func(cur []int64) {
		if len(cur) > 0 {
			vectors = append(vectors, append([]int64(nil), cur...))
		}
		if len(cur) == 4 {
			return
		}
		for _, p := range pool {
			gen(append(cur, p))
		}
	}
	gen(nil)

	firstKnown := ""
	for _, pw := range vectors {
		base := NewValidatorSet(bC17Vals(pw))
		// ---- split
		for tt := 1; tt <= maxT; tt++ {
			ref := base.Copy()
			for i := 0; i < tt; i++ {
				ref.IncrementAccum(1)
			}
			want := bC17State(ref)
			for _, sp := range bC17Splits(tt) {
				if len(sp) == tt {
					continue // the reference itself
				}
				got := base.Copy()
				for _, k := range sp {
					got.IncrementAccum(k)
				}
				cases++
				if g := bC17State(got); g != want {
					if strings.Contains(known, "split-nonadditive") {
						knownSplit++
						if firstKnown == "" {
							firstKnown = fmt.Sprintf("powers %v, %d rounds as %v: %s, one at a time: %s", pw, tt, sp, g, want)
						}
					} else {
						fail("split: powers %v, %d rounds taken as %v give %s; one round at a time gives %s", pw, tt, sp, g, want)
					}
				}
			}
		}
		// ---- share
		total := base.TotalVotingPower()
		vs := base.Copy()
		sum0 := int64(0)
		for _, v := range vs.Validators {
			sum0 += v.Accum
		}
		const k = 3
		count := map[string]int64{}
		for r := int64(0); r < k*total; r++ {
			vs.IncrementAccum(1)
			count[string(vs.GetProposer().Address)]++
			sum := int64(0)
			for _, v := range vs.Validators {
				sum += v.Accum
				if v.Accum <= -2*total || v.Accum >= 2*total {
					fail("share: powers %v: priority %d of %x leaves (-2*%d, 2*%d) after %d rounds", pw, v.Accum, v.Address[:2], total, total, r+1)
				}
			}
			if sum != sum0 {
				fail("share: powers %v: the sum of priorities changed from %d to %d in round %d", pw, sum0, sum, r+1)
				break
			}
		}
		cases++
		for _, v := range vs.Validators {
			if d := count[string(v.Address)] - k*v.VotingPower; d < -1 || d > 1 {
				fail("share: powers %v: validator %x with power %d proposed %d times in %d rounds (expected %d give or take one)", pw, v.Address[:2], v.VotingPower, count[string(v.Address)], k*total, k*v.VotingPower)
			}
		}
		// ---- identity: supply order, rotation state
		vals := bC17Vals(pw)
		rev := make([]*Validator, len(vals))
		for i := range vals {
			rev[len(vals)-1-i] = vals[i]
		}
		a, b := NewValidatorSet(vals), NewValidatorSet(rev)
		cases++
		if !bytes.Equal(a.Hash(), b.Hash()) || bC17State(a) != bC17State(b) {
			fail("identity: powers %v: the set built from the reversed list differs: %s vs %s", pw, bC17State(a), bC17State(b))
		}
		h0 := a.Hash()
		a.IncrementAccum(3)
		if !bytes.Equal(a.Hash(), h0) {
			fail("identity: powers %v: Hash changes with the rotation state", pw)
		}
		// Add in two orders, Remove, Update: compare with a fresh construction of the same content
		if len(vals) >= 2 {
			x := NewValidatorSet(vals[:1])
			y := NewValidatorSet(vals[:1])
			for i := 1; i < len(vals); i++ {
				if !x.Add(vals[i].Copy()) {
					fail("identity: Add of a new validator refused")
				}
			}
			for i := len(vals) - 1; i >= 1; i-- {
				y.Add(vals[i].Copy())
			}
			fresh := NewValidatorSet(vals)
			cases++
			if !bytes.Equal(x.Hash(), fresh.Hash()) || !bytes.Equal(y.Hash(), fresh.Hash()) || x.TotalVotingPower() != fresh.TotalVotingPower() || y.TotalVotingPower() != fresh.TotalVotingPower() {
				fail("identity: powers %v: sets grown by Add (two orders) differ from the set built at once", pw)
			}
			for i := 1; i < len(x.Validators); i++ {
				if bytes.Compare(x.Validators[i-1].Address, x.Validators[i].Address) >= 0 {
					fail("identity: powers %v: validators not sorted by address after Add", pw)
				}
			}
			if x.Add(vals[1].Copy()) {
				fail("identity: Add accepted an address that is already in the set")
			}
			// remove one, compare with the set built without it
			_, ok := x.Remove(vals[1].Address)
			rest := append([]*Validator{vals[0]}, vals[2:]...)
			fr := NewValidatorSet(rest)
			if !ok || !bytes.Equal(x.Hash(), fr.Hash()) || x.TotalVotingPower() != fr.TotalVotingPower() || x.HasAddress(vals[1].Address) {
				fail("identity: powers %v: set after Remove differs from the set built without that validator (total %d vs %d)", pw, x.TotalVotingPower(), fr.TotalVotingPower())
			}
			if _, ok := x.Remove(vals[1].Address); ok {
				fail("identity: Remove of an absent address reports success")
			}
			// update a power, compare with the set built with the new power
			up := vals[0].Copy()
			up.VotingPower += 7
			y2 := NewValidatorSet(vals)
			if !y2.Update(up) {
				fail("identity: Update of a present validator refused")
			}
			nv := append([]*Validator{up}, vals[1:]...)
			fu := NewValidatorSet(nv)
			if !bytes.Equal(y2.Hash(), fu.Hash()) || y2.TotalVotingPower() != fu.TotalVotingPower() {
				fail("identity: powers %v: set after Update differs from the set built with the new power (total %d vs %d)", pw, y2.TotalVotingPower(), fu.TotalVotingPower())
			}
			// the proposer chosen after a change is a member of the changed set
			y2.IncrementAccum(1)
			if _, v := y2.GetByAddress(y2.GetProposer().Address); v == nil {
				fail("identity: proposer after Update is not a member")
			}
			x.IncrementAccum(1)
			if _, v := x.GetByAddress(x.GetProposer().Address); v == nil {
				fail("identity: powers %v: proposer after Remove is not a member of the set", pw)
			}
		}
	}
	// ---- clip: extreme powers
	for _, pw := range [][]int64{{math.MaxInt64, 1}, {math.MaxInt64 / 2, math.MaxInt64 / 2, 5}, {math.MaxInt64, math.MaxInt64}, {math.MaxInt64 - 1, 2, 3}} {
		func() {
			defer func() {
				if r := recover(); r != nil {
					fail("clip: powers %v: panic %v", pw, r)
				}
			}()
			vs := NewValidatorSet(bC17Vals(pw))
			cases++
			if tp := vs.TotalVotingPower(); tp <= 0 {
				fail("clip: powers %v: total voting power %d is not positive (wrapped)", pw, tp)
			}
			for r := 0; r < 6; r++ {
				before := make([]int64, len(vs.Validators))
				for i, v := range vs.Validators {
					before[i] = v.Accum
				}
				vs.IncrementAccum(1 + r%3)
				for i, v := range vs.Validators {
					// a validator that was not chosen only gains priority: it can never end up lower than before
					if v != vs.Proposer && v.Accum < before[i] && 1+r%3 == 1 {
						fail("clip: powers %v: priority of a validator that did not propose fell from %d to %d (wrapped)", pw, before[i], v.Accum)
					}
				}
			}
		}()
	}
	if knownSplit > 0 {
		fmt.Printf("KNOWN-FINDING: property=C17 IncrementAccum(t) for t >= 2 is not t times IncrementAccum(1): a node that skips rounds and a node that takes them one at a time compute different proposers (%d of the enumerated splits differ; first: %s)\n", knownSplit, firstKnown)
	}
	fmt.Printf("BOUNDED-CASES: %d cases (%d power vectors of 1..4 validators over %v; rotations of up to %d rounds in every split; %d*total single rounds for the share; supply order, Add/Remove/Update against fresh construction; 4 extreme-power sets), %d failures\n", cases, len(vectors), pool, maxT, 3, nfail)
	if nfail > 0 {
		t.Fatalf("%d failures", nfail)
	}
}
