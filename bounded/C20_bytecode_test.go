package runtime

// Bounded stand-in for C20 (labelled bounded, never counted as proved): seeded random EVM programs on the real
// interpreter (vm/runtime.Call on a fresh state). Programs are generated from opcode classes with a bias towards
// the ones that index memory, call data, return data and code with stack values, the call family, creates,
// self-destruct and the token opcodes of this chain (ISSUE, BALANCETOKEN, CALLTOKENADDRESS, TRANSFERTOKEN,
// CALLTOKENVALUE); push operands are drawn from boundary values (0, 1, 31, 32, 2^32, 2^63, 2^64-1, 2^64, 2^255,
// 2^256-1) or random bytes, programs may end in a truncated push. Each program runs twice from identical fresh
// states with a gas limit from {1, 21, 1000, 100000, 3000000} and a call value from {0, 1, more than the
// balance}. Checked: no run-time panic escapes the interpreter, gas left never exceeds gas given, both runs agree
// on return data, error, gas left and state root, and a failed run (any error but "execution reverted", which
// must also leave no trace) leaves the state root it started from.

import (
	"bytes"
	"fmt"
	"math/big"
	"math/rand"
	"os"
	"testing"

	"github.com/lianxiangcloud/linkchain/libs/common"
	dbm "github.com/lianxiangcloud/linkchain/libs/db"
	"github.com/lianxiangcloud/linkchain/state"
)

func TestBoundedC20(t *testing.T) {
	seed := int64(1)
	fmt.Sscan(os.Getenv("VERIF_SEED"), &seed)
	programs := 3000
	if os.Getenv("VERIF_TIER") == "thorough" {
		programs = 60000
	}
	rng := rand.New(rand.NewSource(seed))
	boundary := [][]byte{
		{0}, {1}, {31}, {32}, {0xff}, {1, 0, 0, 0, 0}, {0x80, 0, 0, 0, 0, 0, 0, 0}, bytes.Repeat([]byte{0xff}, 8),
		append([]byte{1}, make([]byte, 8)...), append([]byte{0x80}, make([]byte, 31)...), bytes.Repeat([]byte{0xff}, 32),
		[]byte("contract"), {0xe0}, {0x10, 0x00},
	}
	classes := [][]byte{
		{0x01, 0x02, 0x03, 0x04, 0x05, 0x06, 0x07, 0x08, 0x09, 0x0a, 0x0b, 0x10, 0x11, 0x12, 0x13, 0x14, 0x15, 0x16, 0x17, 0x18, 0x19, 0x1a, 0x1b, 0x1c, 0x1d}, // arithmetic, comparison, bits
		{0x20, 0x35, 0x37, 0x39, 0x3c, 0x3e, 0x51, 0x52, 0x53, 0x54, 0x55, 0xa0, 0xa1, 0xa2, 0xa3, 0xa4},                                                       // index memory / data / storage / logs
		{0x30, 0x31, 0x32, 0x33, 0x34, 0x36, 0x38, 0x3a, 0x3b, 0x3d, 0x3f, 0x40, 0x41, 0x42, 0x43, 0x44, 0x45, 0x58, 0x59, 0x5a},                               // environment
		{0x50, 0x56, 0x57, 0x5b, 0x80, 0x81, 0x82, 0x83, 0x8f, 0x90, 0x91, 0x92, 0x9f},                                                                         // stack and flow
		{0xf0, 0xf1, 0xf2, 0xf4, 0xf5, 0xfa, 0xf3, 0xfd, 0xff, 0x00, 0xfe},                                                                                     // calls, creates, halts
		{0xe0, 0xe1, 0xe2, 0xe3, 0xe4}, // token opcodes of this chain
	}
	gen := func() []byte {
		var code []byte
		n := 1 + rng.Intn(40)
		for i := 0; i < n; i++ {
			switch k := rng.Intn(10); {
			case k < 4: // push
				var operand []byte
				if rng.Intn(3) == 0 {
					operand = make([]byte, 1+rng.Intn(32))
					rng.Read(operand)
				} else {
					operand = boundary[rng.Intn(len(boundary))]
				}
				code = append(code, byte(0x5f+len(operand)))
				code = append(code, operand...)
			case k < 9:
				c := classes[rng.Intn(len(classes))]
				if rng.Intn(3) == 0 {
					c = classes[[]int{1, 4, 5}[rng.Intn(3)]]
				}
				code = append(code, c[rng.Intn(len(c))])
			default:
				code = append(code, byte(rng.Intn(256)))
			}
		}
		if rng.Intn(10) == 0 { // truncated push at the end
			code = append(code, byte(0x60+rng.Intn(32)), 0x01)
		}
		return code
	}
	gases := []uint64{1, 21, 1000, 100000, 3000000} // 0 means "no limit" to vm/runtime
	self := common.BytesToAddress([]byte("contract"))
	origin := common.BytesToAddress([]byte("origin"))
	type outcome struct {
		ret  string
		err  string
		left uint64
		root common.Hash
		pan  string
	}
	run := func(code, input []byte, gas uint64, value *big.Int) (o outcome, before common.Hash) {
		st, _ := state.New(common.EmptyHash, state.NewDatabase(dbm.NewMemDB()))
		st.CreateAccount(self)
		st.SetCode(self, code)
		st.AddBalance(self, big.NewInt(1000))
		st.AddBalance(origin, big.NewInt(1000))
		st.AddTokenBalance(self, common.BytesToAddress([]byte{0xe0}), big.NewInt(500))
		before = st.IntermediateRoot(false)
		cfg := &Config{State: st, Origin: origin, GasLimit: gas, Value: value, Time: big.NewInt(1565078742), BlockNumber: big.NewInt(7)}
		func() {
			defer func() {
				if r := recover(); r != nil {
					o.pan = fmt.Sprint(r)
				}
			}()
			ret, left, err := Call(self, input, cfg)
			o.ret, o.left, o.err = string(ret), left, fmt.Sprint(err)
		}()
		o.root = st.IntermediateRoot(false)
		return
	}
	nfail, cases := 0, 0
	fail := func(format string, a ...interface{}) {
		nfail++
		if nfail <= 6 {
			fmt.Printf("BOUNDED-FAIL: "+format+"\n", a...)
		}
	}
	// structured programs first: every opcode that indexes memory, call data, return data, code or storage with
	// stack operands, with its operands drawn from the boundary values (all combinations for up to three operands,
	// a seeded sample for more), preceded by a call that leaves some return data behind
	type opT struct {
		op    byte
		arity int
	}
	indexing := []opT{{0x20, 2}, {0x35, 1}, {0x37, 3}, {0x39, 3}, {0x3c, 4}, {0x3e, 3}, {0x51, 1}, {0x52, 2}, {0x53, 2}, {0x54, 1}, {0x55, 2},
		{0xa0, 2}, {0xa1, 3}, {0xa2, 4}, {0xf3, 2}, {0xfd, 2}, {0xf0, 3}, {0xf5, 4}, {0xf1, 7}, {0xf2, 7}, {0xf4, 6}, {0xfa, 6}, {0x56, 1}, {0x57, 2},
		{0xe0, 2}, {0xe1, 2}, {0xe3, 3}, {0x40, 1}, {0x31, 1}, {0x3b, 1}, {0x3f, 1}, {0xff, 1}, {0x0a, 2}, {0x1b, 2}, {0x1c, 2}, {0x1d, 2}}
	prelude := []byte{0x60, 0x20, 0x60, 0x00, 0x60, 0x04, 0x60, 0x00, 0x60, 0x04, 0x61, 0x10, 0x00, 0xfa, 0x50} // STATICCALL identity precompile: 4 bytes of return data
	var structured [][]byte
	for _, o := range indexing {
		total := 1
		for i := 0; i < o.arity; i++ {
			total *= len(boundary)
		}
		take := total
		if o.arity > 3 {
			take = 300
		}
		for k := 0; k < take; k++ {
			idx := k
			if o.arity > 3 {
				idx = rng.Intn(total)
			}
			var code []byte
			code = append(code, prelude...)
			for i := 0; i < o.arity; i++ {
				operand := boundary[idx%len(boundary)]
				idx /= len(boundary)
				code = append(code, byte(0x5f+len(operand)))
				code = append(code, operand...)
			}
			code = append(code, o.op, 0x00)
			structured = append(structured, code)
		}
	}
	for p := 0; p < programs+len(structured); p++ {
		var code []byte
		if p < len(structured) {
			code = structured[p]
		} else {
			code = gen()
		}
		input := make([]byte, rng.Intn(40))
		rng.Read(input)
		gas := gases[rng.Intn(len(gases))]
		value := []*big.Int{big.NewInt(0), big.NewInt(1), big.NewInt(5000)}[rng.Intn(3)]
		if p < len(structured) { // structured programs get enough gas to reach their opcode
			gas, value = 3000000, big.NewInt(0)
		}
		a, before := run(code, input, gas, value)
		b, _ := run(code, input, gas, value)
		cases++
		if a.pan != "" {
			fail("program %x (input %x, gas %d, value %v): the interpreter panics: %s", code, input, gas, value, a.pan)
			continue
		}
		if a.left > gas {
			fail("program %x (gas %d): %d gas left, more than was given", code, gas, a.left)
		}
		if a != b {
			fail("program %x (input %x, gas %d, value %v): two runs differ: %+v / %+v", code, input, gas, value, a, b)
		}
		if a.err != "<nil>" && a.root != before {
			fail("program %x (input %x, gas %d, value %v) failed with %q but changed the state root", code, input, gas, value, a.err)
		}
		if a.err != "<nil>" && a.err != "vm: execution reverted" && a.err != "evm: execution reverted" && a.left != 0 && a.err != "insufficient balance for transfer" && a.err != "max call depth exceeded" {
			fail("program %x (gas %d) failed with %q and kept %d gas", code, gas, a.err, a.left)
		}
	}
	fmt.Printf("BOUNDED-CASES: %d programs (structured boundary-operand programs for every indexing opcode, then seeded random ones), each run twice (gas limits %v, three call values), %d failures\n", cases, gases, nfail)
	if nfail > 0 {
		t.Fatalf("%d failures", nfail)
	}
}
