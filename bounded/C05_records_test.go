package app

// Bounded stand-in for C05 (labelled bounded, never counted as proved): what a node stores for a committed block
// must be the result of executing THAT block. Two different valid blocks for the same height (for instance the
// proposals of two rounds) are checked through the real CheckBlock, in either order, then one of them is committed
// through the real CommitBlock; the receipts, the state root and the balance records stored for the height must
// be those of the committed block whatever else was checked before. The class "balance records of the last checked
// block are stored for the committed block" is a listed known finding (VERIF_KNOWN contains
// records-of-last-checked-block).

import (
	"fmt"
	"io/ioutil"
	"math/big"
	"os"
	"strings"
	"testing"

	"github.com/lianxiangcloud/linkchain/blockchain"
	"github.com/lianxiangcloud/linkchain/config"
	"github.com/lianxiangcloud/linkchain/libs/common"
	"github.com/lianxiangcloud/linkchain/libs/crypto"
	lctypes "github.com/lianxiangcloud/linkchain/libs/cryptonote/types"
	dbm "github.com/lianxiangcloud/linkchain/libs/db"
	"github.com/lianxiangcloud/linkchain/libs/log"
	"github.com/lianxiangcloud/linkchain/libs/txmgr"
	"github.com/lianxiangcloud/linkchain/metrics"
	"github.com/lianxiangcloud/linkchain/types"
	"github.com/lianxiangcloud/linkchain/utxo"
)

type c05Mempool struct{ txs types.Txs }

func (m *c05Mempool) Reap(int) types.Txs                { return m.txs }
func (*c05Mempool) Update(uint64, types.Txs) error      { return nil }
func (*c05Mempool) GetTxFromCache(common.Hash) types.Tx { return nil }
func (*c05Mempool) Lock()                               {}
func (*c05Mempool) Unlock()                             {}
func (*c05Mempool) KeyImageExists(lctypes.Key) bool     { return false }
func (*c05Mempool) KeyImagePush(lctypes.Key) bool       { return true }
func (*c05Mempool) KeyImageRemoveKeys([]*lctypes.Key)   {}
func (*c05Mempool) KeyImageReset()                      {}

func TestBoundedC05Records(t *testing.T) {
	// the flat state keeps an undo log file in the working directory: work in a scratch directory, not in /repo
	if dir, err := ioutil.TempDir("", "verifbounded"); err == nil {
		defer os.RemoveAll(dir)
		os.Chdir(dir)
	}
	known := os.Getenv("VERIF_KNOWN")
	sk := crypto.GenPrivKeySecp256k1()
	metrics.PrometheusMetricInstance.Init(config.DefaultConfig(), sk.PubKey(), log.NewNopLogger())
	metrics.PrometheusMetricInstance.SetCurrentProposerPubkey(sk.PubKey())
	metrics.PrometheusMetricInstance.SetRole(types.NodePeer)
	types.SaveBalanceRecord = true
	defer func() { types.SaveBalanceRecord = false }()

	key, err := crypto.GenerateKey()
	if err != nil {
		t.Fatal(err)
	}
	from := crypto.PubkeyToAddress(key.PublicKey)
	to := common.Address{0x77}
	amount := big.NewInt(1e18)
	tx := types.NewTransaction(0, to, amount, types.CalNewAmountGas(amount, types.EverLiankeFee), big.NewInt(types.ParGasPrice), nil)
	if err := tx.Sign(types.GlobalSTDSigner, key); err != nil {
		t.Fatal(err)
	}

	type node struct {
		app *LinkApplication
		br  *blockchain.BalanceRecordStore
		mp  *c05Mempool
	}
	open := func() *node {
		bs := blockchain.NewBlockStore(dbm.NewMemDB())
		g := &types.Block{Header: &types.Header{Height: 0, Time: 1507737600, GasLimit: types.DefaultConsensusParams().BlockSize.MaxGas}, Data: &types.Data{}, LastCommit: &types.Commit{}}
		bs.SaveBlock(g, g.MakePartSet(types.DefaultConsensusParams().BlockGossip.BlockPartSizeBytes), nil, nil, &types.TxsResult{})
		cross := txmgr.NewCrossState(dbm.NewMemDB(), bs)
		bs.SetCrossState(cross)
		us := utxo.NewUtxoStore(dbm.NewMemDB(), dbm.NewMemDB(), dbm.NewMemDB())
		us.SetLogger(log.NewNopLogger())
		br := blockchain.NewBalanceRecordStore(dbm.NewMemDB(), true)
		a, err := NewLinkApplication(dbm.NewMemDB(), bs, us, cross, types.NewEventBus(), false, br, nil, nil)
		if err != nil {
			t.Fatal(err)
		}
		mp := &c05Mempool{}
		a.SetMempool(mp)
		a.SetLastChangedVals(0, nil)
		funds := new(big.Int).Mul(big.NewInt(1e18), big.NewInt(1000))
		a.storeState.AddBalance(from, funds)
		a.checkTxState.AddBalance(from, funds)
		return &node{a, br, mp}
	}
	mkBlock := func(n *node, withTx bool, time uint64) *types.Block {
		n.mp.txs = nil
		if withTx {
			n.mp.txs = types.Txs{tx}
		}
		b := n.app.CreateBlock(1, 10, 1e9, time)
		b.LastCommit = &types.Commit{}
		n.app.PreRunBlock(b)
		return b
	}
	summary := func(n *node) string {
		rec := n.br.Get(1)
		nrec := -1
		if rec != nil {
			nrec = len(rec.TxRecords)
		}
		rc := n.app.blockChain.GetReceipts(1)
		nrc := -1
		if rc != nil {
			nrc = len(*rc)
		}
		return fmt.Sprintf("receipts=%d balance-record entries=%d balance(to)=%v", nrc, nrec, n.app.storeState.GetBalance(to))
	}
	// reference: a node that only ever saw the committed block
	run := func(commitWithTx bool, alsoCheckOther bool, otherFirst bool) string {
		n := open()
		bT := mkBlock(n, true, 1507737700)
		bE := mkBlock(n, false, 1507737701)
		n.app.processMap = map[common.Hash]*ProcessResult{} // forget the proposer-side pre-runs: this node is a validator
		committed, other := bE, bT
		if commitWithTx {
			committed, other = bT, bE
		}
		if alsoCheckOther && otherFirst {
			if !n.app.CheckBlock(other) {
				t.Fatalf("CheckBlock(other)")
			}
		}
		if !n.app.CheckBlock(committed) {
			t.Fatalf("CheckBlock(committed)")
		}
		if alsoCheckOther && !otherFirst {
			if !n.app.CheckBlock(other) {
				t.Fatalf("CheckBlock(other)")
			}
		}
		parts := committed.MakePartSet(types.DefaultConsensusParams().BlockGossip.BlockPartSizeBytes)
		if _, err := n.app.CommitBlock(committed, parts, &types.Commit{}, false); err != nil {
			t.Fatalf("CommitBlock: %v", err)
		}
		return summary(n)
	}
	nfail, cases, knownN := 0, 0, 0
	first := ""
	for _, commitWithTx := range []bool{true, false} {
		ref := run(commitWithTx, false, false)
		for _, otherFirst := range []bool{true, false} {
			got := run(commitWithTx, true, otherFirst)
			cases++
			if got != ref {
				onlyRecords := strings.Split(got, " balance-record")[0] == strings.Split(ref, " balance-record")[0] && got[strings.Index(got, "balance(to)"):] == ref[strings.Index(ref, "balance(to)"):]
				if onlyRecords && strings.Contains(known, "records-of-last-checked-block") {
					knownN++
					if first == "" {
						first = fmt.Sprintf("committed block with transfer=%v, other block checked first=%v: stored %s; a node that saw only the committed block: %s", commitWithTx, otherFirst, got, ref)
					}
				} else {
					nfail++
					fmt.Printf("BOUNDED-FAIL: committed block with transfer=%v, other block checked first=%v: stored %s; a node that saw only the committed block: %s\n", commitWithTx, otherFirst, got, ref)
				}
			}
		}
	}
	if knownN > 0 {
		fmt.Printf("KNOWN-FINDING: property=C05 balance records are collected in a process-wide object that every processBlock resets and fills; CommitBlock stores that object for the committed height: when another block of the same height was checked after the committed one, the records stored (and stamped with the committed block's hash) are the other block's (%d of %d orders; first: %s)\n", knownN, cases, first)
	}
	fmt.Printf("BOUNDED-CASES: %d orders (two valid blocks for height 1, one with a transfer, one empty; either committed; the other checked before or after), %d failures\n", cases, nfail)
	if nfail > 0 {
		t.Fatalf("%d failures", nfail)
	}
}
