SHELL := /bin/bash
export GOFLAGS := -mod=mod
export GOPROXY := off
export GOSUMDB := off
export GOTOOLCHAIN := local

.PHONY: setup govc stubs selftest
setup: govc stubs

govc:
	mkdir -p build
	cd govc && go build -o ../build/govc .

stubs:
	@if [ ! -f build/stublibs/libxcrypto.a ]; then ./scripts/mkstubs.sh /verif/build/stublibs; fi
