#!/bin/bash
# Must-fail corpus: every patch in selftest/mutants must make the named property's check print a VIOLATION line;
# every patch in selftest/harmless must leave it quiet. Also runs every seeded/<name>/patch.diff against its property.
cd /verif
fail=0
run() { # patch props expect(violation|quiet)
  for p in $(tr ',' ' ' < "$2"); do
    out=$(scripts/try_seed.sh "$1" $p 2>&1)
    if echo "$out" | grep -q "PATCH DOES NOT APPLY\|REFUSING"; then echo "SKIP  $1 ($p): $(echo "$out" | head -1)"; fail=1; continue; fi
    if echo "$out" | grep -q "^VIOLATION property=$p "; then got=violation; else got=quiet; fi
    n=$(basename $1); [ "$n" = patch.diff ] && n=$(basename $(dirname $1))
    if [ $got = $3 ]; then echo "ok    $n [$p] -> $got"; else echo "WRONG $n [$p] -> $got, expected $3"; echo "$out" | head -5; fail=1; fi
  done
}
for m in selftest/mutants/*.diff; do run $m ${m%.diff}.props violation; done
for m in selftest/harmless/*.diff; do [ -f "$m" ] && run $m ${m%.diff}.props quiet; done
for d in seeded/*/; do
  python3 -c "import json,sys;print(json.load(open('$d/meta.json'))['property'])" > /var/tmp/seedprop.$$
  run $d/patch.diff /var/tmp/seedprop.$$ violation
done
rm -f /var/tmp/seedprop.$$
exit $fail
