#!/bin/bash
# usage: scripts/try_seed.sh <patch.diff> <property id>...   apply a patch to /repo, run the checks, undo
P=$(readlink -f "$1"); shift
cd /repo || exit 2
if ! git diff --quiet || ! git diff --cached --quiet; then echo "REFUSING: /repo has uncommitted changes to tracked files (commit them first)"; exit 4; fi
if ! git apply --check "$P" 2>/dev/null; then echo "PATCH DOES NOT APPLY: $P"; git apply --check "$P"; exit 3; fi
git apply "$P"
trap 'git -C /repo checkout -- . ' EXIT
for id in "$@"; do
  cp /verif/evidence/$id.json /var/tmp/evidence.$id.bak 2>/dev/null
  ( cd /verif && ./check $id quick 2>&1 | grep -E "^(VIOLATION|KNOWN-FINDING|property )" | cut -c1-400 )
  # evidence committed to /verif must come from the unchanged tree: put the previous file back
  [ -f /var/tmp/evidence.$id.bak ] && mv /var/tmp/evidence.$id.bak /verif/evidence/$id.json
done
