#!/bin/bash
# The same corpus as scripts/selftest.sh (must-fail mutants, harmless patches, all seeded changes), decided faster:
#   pass 1  contracts only (GOVC_SKIP_BOUNDED=1), J scratch worktrees of /repo in parallel, each with its own
#           VERIF_ROOT so that nothing under /verif/evidence or /verif/out is touched;
#   pass 2  every entry pass 1 got wrong (a change only a bounded stand-in catches, or an obligation that timed out
#           under the parallel load) is repeated alone through scripts/try_seed.sh, i.e. the registered check on /repo.
# An entry is reported WRONG only if pass 2 gets it wrong. /repo must be clean. Scratch lives under /var/tmp/st.
cd /verif
export GOFLAGS=-mod=mod GOPROXY=off GOSUMDB=off GOTOOLCHAIN=local
J=${J:-4}
S=/var/tmp/st
rm -rf $S; mkdir -p $S
[ -x build/govc ] || make -s govc
list=$S/list
for m in selftest/mutants/*.diff; do echo "$m $(cat ${m%.diff}.props) violation"; done > $list
for m in selftest/harmless/*.diff; do echo "$m $(cat ${m%.diff}.props) quiet"; done >> $list
for d in seeded/*/; do echo "${d}patch.diff $(python3 -c "import json;print(json.load(open('${d}meta.json'))['property'])") violation"; done >> $list
# optional first argument: a regular expression selecting corpus entries by path (e.g. 'seeded/C1[0-9]')
if [ -n "$1" ]; then grep -E "$1" $list > $list.sel; mv $list.sel $list; fi
worker() { # k
  k=$1; wt=$S/wt$k; root=$S/root$k
  git -C /repo worktree add -q --detach $wt HEAD || exit 2
  mkdir -p $root/out $root/evidence
  for x in KNOWN_FINDINGS.txt replay build contracts props bounded scripts; do ln -s /verif/$x $root/$x; done
  awk -v k=$k -v j=$J 'NR % j == k' $list | while read patch props expect; do
    n=$(basename $patch .diff); [ "$n" = patch ] && n=$(basename $(dirname $patch))
    git -C $wt checkout -q -- . ; git -C $wt clean -fdq
    if ! git -C $wt apply /verif/$patch 2>/dev/null; then echo "SKIP  $n: patch does not apply" >> $S/result.$k; continue; fi
    for p in $(echo $props | tr ',' ' '); do
      out=$(GOVC_SKIP_BOUNDED=1 GOVC_REPO=$wt VERIF_ROOT=$root build/govc check props/$p.json quick 2>&1)
      if echo "$out" | grep -q "^VIOLATION property=$p "; then got=violation; else got=quiet; fi
      if [ $got = $expect ]; then echo "ok    $n [$p] -> $got (contracts alone)"; else echo "RETRY $patch $p $expect"; fi >> $S/result.$k
    done
  done
  git -C /repo worktree remove --force $wt
}
for k in $(seq 0 $((J-1))); do worker $k & done
wait
git -C /repo worktree prune
cat $S/result.* | grep -v "^RETRY" | sort
fail=0
grep -q "^SKIP" $S/result.* && fail=1
cat $S/result.* | grep "^RETRY" | while read _ patch p expect; do
  n=$(basename $patch .diff); [ "$n" = patch ] && n=$(basename $(dirname $patch))
  out=$(scripts/try_seed.sh $patch $p 2>&1)
  if echo "$out" | grep -q "^VIOLATION property=$p "; then got=violation; else got=quiet; fi
  if [ $got = $expect ]; then echo "ok    $n [$p] -> $got (full check, second pass)"; else echo "WRONG $n [$p] -> $got, expected $expect"; echo "$out" | head -5; echo x > $S/failed; fi
done
[ -f $S/failed ] && fail=1
n=$(cat $S/result.* | wc -l)
echo "selftest: $n entries, $(cat $S/result.* | grep -c '^RETRY') needed the second pass, fail=$fail"
rm -rf $S
exit $fail
