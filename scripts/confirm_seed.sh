#!/bin/bash
# usage: confirm_seed.sh <patch.diff> <demo_test.go> <pkgdir e.g. types> <run-regex> [extra pkgs whose existing tests must still pass...]
# Confirms in a scratch worktree of /repo HEAD: demo passes without the patch, patched tree builds, demo fails with it,
# and the existing tests of the listed leaf packages still pass.
P=$(readlink -f $1); T=$(readlink -f $2); PKG=$3; RUN=$4; shift 4
export GOFLAGS=-mod=mod GOPROXY=off GOSUMDB=off GOTOOLCHAIN=local LIBRARY_PATH=/verif/build/stublibs
WT=/tmp/wt/confirm.$$
git -C /repo worktree add -q --detach $WT HEAD || exit 2
trap 'git -C /repo worktree remove --force '$WT EXIT
cd $WT
mkdir -p $PKG; cp $T $PKG/
echo "--- demo on unpatched tree (expect ok)"
go test -count=1 -vet=off -timeout 300s -run "$RUN" ./$PKG/ 2>&1 | grep -v "lvl=" | tail -3
if ! git apply $P; then echo "PATCH DOES NOT APPLY"; exit 3; fi
echo "--- build patched tree"
go build ./... 2>&1 | tail -3
echo "--- demo on patched tree (expect FAIL)"
go test -count=1 -vet=off -timeout 300s -run "$RUN" ./$PKG/ 2>&1 | grep -v "lvl=" | grep -E "^(--- FAIL|FAIL|ok|panic)" | head -5
rm -f $PKG/$(basename $T)
for p in "$@"; do
  echo "--- existing tests of $p on patched tree"
  go test -count=1 -vet=off -timeout 900s ./$p/ 2>&1 | grep -v "lvl=" | tail -2
done
