#!/bin/bash
# Build stub static libraries so that test binaries of the core packages link
# without libxcrypto / boost (absent in this sandbox). Any call into a stub aborts.
set -e
OUT=${1:-/verif/build/stublibs}
export GOFLAGS=-mod=mod GOPROXY=off GOSUMDB=off GOTOOLCHAIN=local
mkdir -p "$OUT"
W=$(mktemp -d ${TMPDIR:-/var/tmp}/stub.XXXXXX)
trap 'rm -rf "$W"' EXIT
echo 'void __stub_empty(void){}' > $W/e.c
gcc -c $W/e.c -o $W/e.o
for l in system filesystem thread date_time regex chrono; do
  ar rcs $OUT/libboost_$l.a $W/e.o
done
ar rcs $OUT/libxcrypto.a $W/e.o
# trial link to collect undefined symbols
( cd /repo && LIBRARY_PATH=$OUT go test -count=1 -vet=off -run '^$' ./types/ 2>&1 || true ) > $W/link.log
grep -o "undefined reference to \`[A-Za-z0-9_]*'" $W/link.log | sed "s/.*\`//; s/'//" | sort -u > $W/syms.txt
{
  echo '#include <stdlib.h>'
  while read s; do echo "void $s(void){abort();}"; done < $W/syms.txt
} > $W/x.c
gcc -c $W/x.c -o $W/x.o
rm -f $OUT/libxcrypto.a
ar rcs $OUT/libxcrypto.a $W/x.o
echo "stub symbols: $(wc -l < $W/syms.txt)"
