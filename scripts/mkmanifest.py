#!/usr/bin/env python3
# Regenerates /verif/MANIFEST.json from props/*.json and props/claims.json (level text per property).
import json, glob, os, subprocess
root = os.path.dirname(os.path.dirname(os.path.abspath(__file__)))
props = [json.loads(l) for l in open(os.path.join(root, 'properties.jsonl'))]
claims = json.load(open(os.path.join(root, 'props', 'claims.json')))
checks, na = [], []
hook_commits = subprocess.run(['git', '-C', '/repo', 'log', '--format=%h %s'], capture_output=True, text=True).stdout.splitlines()
hook_commits = [l.split()[0] for l in hook_commits if 'verif hook' in l]
for p in props:
    pid = p['id']
    pf = os.path.join(root, 'props', pid + '.json')
    c = claims.get(pid, {})
    if os.path.exists(pf) and c.get('claimed'):
        checks.append({
            "property_id": pid,
            "quick_cmd": "./check %s quick" % pid,
            "thorough_cmd": "./check %s thorough" % pid,
            "evidence_file": "/verif/evidence/%s.json" % pid,
            "replay_cmd_template": "cat {path}   # replay files are self-contained Go tests (run with go test -overlay, see header) or solver transcripts",
            "engine": "govc",
            "level_claimed": {"category": "proof", "text": c['text'], "design_ref": "DESIGN.md section 6, " + pid},
            "level_note": c['note'],
            "technique": c.get('technique', "contract-based deductive verification: VCs generated from go/ssa of the real functions + contracts in //go:build verif comment files, discharged by z3/cvc5"),
        })
    else:
        na.append({"property_id": pid, "reason": c.get('na_reason', "not completed: contracts for this property have not been brought to discharge yet (plan in DESIGN.md section 6)")})
m = {
 "version": 1,
 "setup_cmd": "make -C /verif setup",
 "hooks": {"guard": "verif",
           "enable": "none needed: govc reads /repo/<pkg>/verif_contracts.go (comment-only files, //go:build verif) as text; nothing is compiled with the tag",
           "baseline_off_cmd": "for m in $(cat /w/out/gomods.txt); do MF=$(cd /repo/$m && . /w/out/goenv.sh && gomodflag); (cd /repo/$m && go test $MF -json -vet=off -count=1 -timeout 25m ./...); done",
           "source_commits": hook_commits, "add_only": True},
 "engines": [{"name": "govc", "path": "/verif/govc", "serves_properties": [c['property_id'] for c in checks],
              "kind_free_text": "verification-condition generator over go/ssa (naive form) of the real functions; contracts (requires/ensures/modifies/loop invariants/spec functions/lemmas) in comment-only files in /repo; one SMT query per named obligation, raced on z3 5.1.0, z3 4.8.12, cvc5 1.0.3; counterexamples replayed with go test -overlay"}],
 "checks": checks,
 "notes": "Every check rebuilds its obligations from /repo's working tree on each run. KNOWN_FINDINGS.txt lists recorded findings and repaired defects. seeded/ holds independently produced breaking changes and which obligation catches each.",
 "not_applicable": na,
}
json.dump(m, open(os.path.join(root, 'MANIFEST.json'), 'w'), indent=1)
print("checks:", [c['property_id'] for c in checks], "not_applicable:", len(na))
