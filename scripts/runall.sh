#!/bin/bash
# Runs every claimed check (quick by default) on the current tree, four at a time; prints one line per property.
cd /verif
TIER=${1:-quick}
ids=$(python3 -c "import json;print(' '.join(c['property_id'] for c in json.load(open('MANIFEST.json'))['checks']))")
printf "%s\n" $ids | xargs -P 4 -I{} bash -c "./check {} $TIER > /var/tmp/runall.{}.log 2>&1; echo \"{} exit=\$? \$(tail -1 /var/tmp/runall.{}.log | cut -c1-200)\""
grep -h "^VIOLATION" /var/tmp/runall.*.log 2>/dev/null | cut -c1-300
