#!/bin/bash
# usage: scripts/bounded.sh <property> <name> <pkgdir under /repo> <test file under /verif/bounded> <RunRegex> [timeout]
# Injects the test file into the package of /repo's working tree through a go overlay (nothing is written to /repo),
# runs it, and turns a failing run into "VIOLATION property=<id> replay=<file> bounded=<name>". The test prints
# "BOUNDED-CASES: <n> ..." (copied into the evidence) and "BOUNDED-FAIL: ..." lines describing failing cases.
P=$1; NAME=$2; PKG=$3; TF=$4; RUN=$5; TO=${6:-600s}; BLANK=$7
# optional 7th argument: comma-separated existing test files of the package to leave out of this run (replaced, in the
# overlay only, by bounded/stubs/<basename of pkg>_empty_test.go) - for packages whose own tests abort at init in this sandbox
cd /verif || exit 2
# the tree under test: /repo, unless a development run points GOVC_REPO at a scratch worktree (the registered commands never do);
# scratch output then goes under VERIF_ROOT so that two such runs do not collide
REPO=${GOVC_REPO:-/repo}; OUTROOT=${VERIF_ROOT:-/verif}
export GOFLAGS=-mod=mod GOPROXY=off GOSUMDB=off GOTOOLCHAIN=local LIBRARY_PATH=/verif/build/stublibs
mkdir -p $OUTROOT/out/replay/$P $OUTROOT/out/bounded
OV=$OUTROOT/out/bounded/$P.$NAME.overlay.json
{ printf '{"Replace": {"%s/%s/zz_verif_bounded_%s_test.go": "/verif/bounded/%s"' "$REPO" "$PKG" "$NAME" "$TF"
  for f in $(echo "$BLANK" | tr ',' ' '); do printf ', "%s/%s/%s": "/verif/bounded/stubs/%s_empty_test.go"' "$REPO" "$PKG" "$f" "$(basename $PKG)"; done
  printf '}}\n'; } > $OV
OUT=$OUTROOT/out/replay/$P/bounded_$NAME.txt
# classes of this stand-in that are listed as known findings (KNOWN_FINDINGS.txt: obligation=bounded.<name>.<class>)
export VERIF_KNOWN=$(grep "^finding: property=$P obligation=bounded\.$NAME\." KNOWN_FINDINGS.txt | sed "s/.*obligation=bounded\.$NAME\.\([^ ]*\).*/\1/" | tr "\n" " ")
( cd $REPO && ulimit -v 12000000; go test -v -overlay $OV -count=1 -vet=off -timeout $TO -run "$RUN" ./$PKG/ ) > $OUT 2>&1
rc=$?
grep -a -h "^BOUNDED-CASES:" $OUT | tail -1
grep -a -h "^KNOWN-FINDING:" $OUT | sort -u
if [ $rc -ne 0 ]; then
  grep -a -h "BOUNDED-FAIL:" $OUT | head -5
  echo "VIOLATION property=$P replay=$OUT bounded=$NAME"
  exit 1
fi
exit 0
