#!/usr/bin/env python3
# Regenerates section 0 ("Status at a glance") of DESIGN.md from props/, evidence/ and KNOWN_FINDINGS.txt.
import json
kf=open('/verif/KNOWN_FINDINGS.txt').read().split('\n')
titles={}
for l in open('/verif/properties.jsonl'):
    d=json.loads(l); titles[d['id']]=d['title']
tab="| id | property | functions under contract | obligations (quick) | bounded stand-ins | defects repaired (`fix:`) | known findings |\n|----|----------|---|---|---|---|---|\n"
tot=[0,0,0,0]
for i in range(1,21):
    pid='C%02d'%i
    ev=json.load(open('/verif/evidence/%s.json'%pid))
    pr=json.load(open('/verif/props/%s.json'%pid))
    cov=ev['coverage']
    nf=len(cov.get('functions_under_contract',pr['functions']))
    nob=cov.get('obligations')
    if isinstance(nob,dict): nob=nob.get('total')
    bd=', '.join(b['name'] for b in pr.get('bounded',[])) or '–'
    fx=sum(1 for l in kf if l.startswith('fixed: property=%s '%pid))
    fn=sum(1 for l in kf if l.startswith('finding: property=%s '%pid))
    tab+="| %s | %s | %s | %s | %s | %s | %s |\n"%(pid,titles[pid][:70],nf,nob,bd,fx or '–',fn or '–')
    tot[0]+=nf; tot[1]+=int(nob or 0); tot[2]+=fx; tot[3]+=fn
tab+="| | **total** | %d | %d | | %d | %d |\n"%tuple(tot)
p='/verif/DESIGN.md'
s=open(p).read()
a=s.index('| id | property | functions under contract')
b=s.index('\nWhat the technique reached and what it did not')
s=s[:a]+tab+s[b:]
open(p,'w').write(s)
print(tab)
