#!/bin/bash
# usage: scripts/try_seed_wt.sh <patch.diff> <property id>...
# Like try_seed.sh, but in a scratch worktree of /repo HEAD (removed afterwards) with its own VERIF_ROOT, so that /repo,
# /verif/evidence and /verif/out stay untouched and several of these can run side by side. Development aid only.
P=$(readlink -f "$1"); shift
export GOFLAGS=-mod=mod GOPROXY=off GOSUMDB=off GOTOOLCHAIN=local
S=/var/tmp/tsw.$$; wt=$S/wt; root=$S/root
mkdir -p $root/out $root/evidence
git -C /repo worktree add -q --detach $wt HEAD || exit 2
trap 'git -C /repo worktree remove --force '$wt'; rm -rf '$S EXIT
for x in KNOWN_FINDINGS.txt replay build contracts props bounded scripts; do ln -s /verif/$x $root/$x; done
if ! git -C $wt apply "$P"; then echo "PATCH DOES NOT APPLY: $P"; exit 3; fi
cd /verif
for id in "$@"; do
  GOVC_REPO=$wt VERIF_ROOT=$root build/govc check props/$id.json ${TIER:-quick} 2>&1 | grep -a -E "^(VIOLATION|KNOWN-FINDING|property )" | sed "s|$root|<scratch>|g" | cut -c1-400
done
