package main

// Calls: builtins, contracts (checked or trusted), inlining, sinks; maps; defers; channels.

import (
	"fmt"
	"go/token"
	"go/types"
	"math/big"
	"os"
	"sort"
	"strings"

	"golang.org/x/tools/go/ssa"
)

func bigPow2(n int64, _ string) string {
	return new(big.Int).Lsh(big.NewInt(1), uint(n)).String()
}

const maxInlineDepth = 4

func (g *Gen) call(fr *frame, st *State, site ssa.Instruction, cc *ssa.CallCommon, rt types.Type) *Value {
	// builtins
	if b, ok := cc.Value.(*ssa.Builtin); ok {
		return g.builtin(fr, st, site, b, cc, rt)
	}
	var args []*Value
	var key string
	var callee *ssa.Function
	var bindings []*Value
	what := ""
	if cc.IsInvoke() {
		recv := g.val(fr, st, cc.Value)
		args = append(args, recv)
		key = cc.Method.FullName()
		what = key
		g.guard(fr, st, "nil", "invoke "+cc.Method.Name()+" on nil interface", "(not (= "+recv.L[0]+" 0))")
	} else {
		fv := g.val(fr, st, cc.Value)
		if fv.Fn != nil {
			callee = fv.Fn.Fn
			bindings = fv.Fn.Bindings
			key = funcKey(callee)
		} else {
			// function-typed field or variable
			key = g.funcFieldTarget(fr, cc.Value)
			if key == "" {
				if u, ok := cc.Value.(*ssa.UnOp); ok {
					if gl, ok := u.X.(*ssa.Global); ok {
						key = gl.Pkg.Pkg.Path() + "." + gl.Name()
						g.note("package-level function variable " + shortKey(key) + " is bound to its contract (assumed never reassigned)")
					}
				}
			}
			if key == "" {
				if g.fc != nil && g.fc.OpaqueCalls {
					// at-call clauses can name a function-typed field: its (signature) parameter names denote the arguments
					if dn := dynCallName(cc.Value); dn != "" && fr.fc != nil && len(fr.fc.AtCall[dn]) > 0 {
						avars := map[string]*Value{}
						sig := cc.Signature()
						for i, a := range cc.Args {
							if i < sig.Params().Len() {
								if n := sig.Params().At(i).Name(); n != "" && n != "_" {
									avars[n] = g.val(fr, st, a)
								}
							}
						}
						g.atCallClauses(fr, st, dn, avars)
					}
					return g.opaqueCall(fr, st, "call through function value "+exprOr(fr.text[cc.Value], cc.Value.Name()), rt)
				}
				g.errorf("%s: call through function value %s (no funcfield binding)", funcKey(fr.fn), exprOr(fr.text[cc.Value], cc.Value.Name()))
				return g.freshValue(st, "dyncall", rt)
			}
			callee = g.W.findFunc(key)
			g.note("function-typed field bound to its default implementation: " + key)
		}
		what = key
	}
	for _, a := range cc.Args {
		args = append(args, g.val(fr, st, a))
	}
	if g.mutexOp(st, key, args) {
		return &Value{T: rt}
	}
	if fr.fc != nil && len(fr.fc.AtCall) > 0 {
		// "at f assert" applies to every call of f in the function, "at f#2 assert" to the second one in source order
		names := []string{shortName(key)}
		if ord := siteOrdinal(fr.fn, site, shortName(key)); ord > 0 {
			names = append(names, fmt.Sprintf("%s#%d", shortName(key), ord))
		}
		for _, nm := range names {
			if len(fr.fc.AtCall[nm]) == 0 {
				continue
			}
			// the callee's parameter names denote the actual arguments of this call
			avars := map[string]*Value{}
			cfc := g.W.C.Funcs[key]
			if cfc == nil {
				cfc = &FuncContract{}
			}
			for k, n := range g.paramNames(cfc, callee, cc, len(args)) {
				if k < len(args) {
					avars[n] = args[k]
				}
			}
			g.atCallClauses(fr, st, nm, avars)
		}
	}
	fc := g.W.C.Funcs[key]
	// inline: closures created here, or functions marked inline
	if callee != nil && len(callee.Blocks) > 0 {
		if (fc != nil && fc.Inline) || (fc == nil && callee.Parent() != nil && bindings != nil) || (fc == nil && g.W.autoInline[key]) {
			if fr.depth >= maxInlineDepth {
				g.errorf("%s: inline depth exceeded at %s", funcKey(fr.fn), key)
				return g.freshValue(st, "deep", rt)
			}
			return g.inlineCall(fr, st, callee, args, bindings, rt)
		}
	}
	if fc == nil {
		if g.W.C.isSink(key) {
			g.trusted["sink "+shortKey(key)] = true
			return g.freshValue(st, "r."+shortName(key), rt)
		}
		if g.fc != nil && g.fc.OpaqueCalls {
			return g.opaqueCall(fr, st, key, rt)
		}
		// a small helper of the same package without a contract (for instance the result of an "extract function"
		// refactoring of a function under contract) is executed in place rather than
		// reported as a generator error (functions under `opaque_calls` keep treating every uncontracted callee as opaque,
		// so nothing changes for them)
		if callee != nil && len(callee.Blocks) > 0 && os.Getenv("GOVC_NO_SMALL_INLINE") == "" && callee.Pkg == fr.fn.Pkg && callee.Parent() == nil && fr.depth < 2 && g.smallHelper(callee, fr) {
			g.note("small same-package helper without a contract executed in place: " + shortKey(key))
			return g.inlineCall(fr, st, callee, args, bindings, rt)
		}
		g.errorf("%s: uncontracted call to %s", funcKey(fr.fn), what)
		return g.freshValue(st, "r."+shortName(key), rt)
	}
	return g.applyContract(fr, st, fc, key, callee, cc, args, rt)
}

// smallHelper: at most 150 naive-form instructions (roughly ten source lines), no loops, no defers/go/select, not already being executed (recursion), and it
// calls nothing but builtins, contracted functions, sinks or other small helpers (checked when those are reached).
func (g *Gen) smallHelper(fn *ssa.Function, fr *frame) bool {
	if fn == fr.fn || fn == g.fn {
		return false
	}
	n := 0
	for _, b := range fn.Blocks {
		for _, in := range b.Instrs {
			n++
			switch in.(type) {
			case *ssa.Defer, *ssa.Go, *ssa.Select: // (the naive form keeps a RunDefers before every return; without a Defer it does nothing)
				return false
			}
		}
	}
	if n > 150 || len(findLoops(fn)) > 0 {
		return false
	}
	return true
}

// atCallClauses poses the at-call clauses written for callee name `name` at this call site.
func (g *Gen) atCallClauses(fr *frame, st *State, name string, avars map[string]*Value) {
	for i, cl := range fr.fc.AtCall[name] {
		nerr := 0
		env := &Env{g: g, st: st, old: fr.old, vars: map[string]*Value{}, fr: fr, pkgPath: fr.fn.Pkg.Pkg.Path(), inBody: true, bound: avars, quietErrs: &nerr}
		t := env.evalBool(cl.E)
		ck := name + "." + clauseName(cl, i)
		if g.atSeen == nil {
			g.atSeen, g.atSkipped = map[string]int{}, map[string]int{}
		}
		if nerr > 0 {
			// the clause names a local that does not exist on this path (another branch's variable): it does not
			// apply to this call site. A clause that applies to no site at all is reported as an error.
			g.atSkipped[ck]++
			continue
		}
		g.atSeen[ck]++
		g.addOblig(st, "assert", fmt.Sprintf("at.%s.%s", name, clauseName(cl, i)), t, cl.Src)
	}
}

// siteOrdinal: the 1-based position, in source order, of the call instruction `site` among the calls in fn whose
// callee has the short name `name` (static callees and interface methods); 0 if it cannot be determined.
func siteOrdinal(fn *ssa.Function, site ssa.Instruction, name string) int {
	if site == nil {
		return 0
	}
	type cs struct {
		pos token.Pos
		in  ssa.Instruction
	}
	var sites []cs
	for _, b := range fn.Blocks {
		for _, in := range b.Instrs {
			ci, ok := in.(ssa.CallInstruction)
			if !ok {
				continue
			}
			cc := ci.Common()
			n := ""
			if cc.IsInvoke() {
				n = cc.Method.Name()
			} else if f := cc.StaticCallee(); f != nil {
				n = f.Name()
			}
			if n == name {
				sites = append(sites, cs{in.Pos(), in})
			}
		}
	}
	sort.SliceStable(sites, func(i, j int) bool { return sites[i].pos < sites[j].pos })
	for i, c := range sites {
		if c.in == site {
			return i + 1
		}
	}
	return 0
}

// dynCallName: the field name of a call through a function-typed field (x.f(...)), "" otherwise.
func dynCallName(v ssa.Value) string {
	if u, ok := v.(*ssa.UnOp); ok {
		if fa, ok := u.X.(*ssa.FieldAddr); ok {
			if pt, ok := types.Unalias(fa.X.Type()).Underlying().(*types.Pointer); ok {
				if stt, ok := types.Unalias(pt.Elem()).Underlying().(*types.Struct); ok && fa.Field < stt.NumFields() {
					return stt.Field(fa.Field).Name()
				}
			}
		}
	}
	if f, ok := v.(*ssa.Field); ok {
		if stt, ok := types.Unalias(f.X.Type()).Underlying().(*types.Struct); ok && f.Field < stt.NumFields() {
			return stt.Field(f.Field).Name()
		}
	}
	return ""
}

func shortKey(k string) string { return strings.ReplaceAll(k, modPath+"/", "") }
func shortName(k string) string {
	if i := strings.LastIndex(k, "."); i >= 0 {
		return k[i+1:]
	}
	return k
}

func (g *Gen) funcFieldTarget(fr *frame, v ssa.Value) string {
	// v is a load of a FieldAddr: *(&x.field)
	if u, ok := v.(*ssa.UnOp); ok {
		if fa, ok := u.X.(*ssa.FieldAddr); ok {
			stt := types.Unalias(fa.X.Type()).Underlying().(*types.Pointer).Elem()
			f := types.Unalias(stt).Underlying().(*types.Struct).Field(fa.Field)
			k := "(*" + strings.TrimPrefix(typeKeyFull(stt), "*") + ")." + f.Name()
			if t, ok := g.W.C.FuncFields[shortKey(k)]; ok {
				return t
			}
			if t, ok := g.W.C.FuncFields[k]; ok {
				return t
			}
		}
	}
	return ""
}

func typeKeyFull(t types.Type) string {
	if n, ok := types.Unalias(t).(*types.Named); ok && n.Obj().Pkg() != nil {
		return n.Obj().Pkg().Path() + "." + n.Obj().Name()
	}
	return t.String()
}

func (g *Gen) inlineCall(fr *frame, st *State, callee *ssa.Function, args, bindings []*Value, rt types.Type) *Value {
	g.inlined[shortFuncName(callee)] = true
	nf := g.newFrame(callee, fr.depth+1)
	out, results := g.runBody(nf, args, bindings, st)
	if out == nil {
		st.reach = "false"
		return g.freshValue(st, "noret", rt)
	}
	// continue in the caller with the callee's exit state
	*st = *out
	switch len(results) {
	case 0:
		return &Value{T: rt}
	case 1:
		return results[0]
	}
	return &Value{T: rt, Tup: results}
}

// paramNames returns the names by which a contract refers to the callee's receiver and parameters.
func (g *Gen) paramNames(fc *FuncContract, callee *ssa.Function, cc *ssa.CallCommon, nargs int) []string {
	if len(fc.ParamNames) > 0 {
		return fc.ParamNames
	}
	var names []string
	if callee != nil && len(callee.Params) == nargs {
		for _, p := range callee.Params {
			names = append(names, p.Name())
		}
		return names
	}
	var sig *types.Signature
	if cc != nil && cc.IsInvoke() {
		sig = cc.Method.Type().(*types.Signature)
		names = append(names, "recv")
	} else if callee != nil {
		sig = callee.Signature
		if sig.Recv() != nil {
			n := sig.Recv().Name()
			if n == "" || n == "_" {
				n = "recv"
			}
			names = append(names, n)
		}
	}
	if sig != nil {
		for i := 0; i < sig.Params().Len(); i++ {
			n := sig.Params().At(i).Name()
			if n == "" || n == "_" {
				n = fmt.Sprintf("arg%d", i)
			}
			names = append(names, n)
		}
	}
	return names
}

func (g *Gen) applyContract(fr *frame, st *State, fc *FuncContract, key string, callee *ssa.Function, cc *ssa.CallCommon, args []*Value, rt types.Type) *Value {
	names := g.paramNames(fc, callee, cc, len(args))
	vars := map[string]*Value{}
	for i, n := range names {
		if i < len(args) {
			vars[n] = args[i]
		}
	}
	if fc.Trusted {
		g.trusted[shortKey(key)] = true
	}
	if fc.SafetyOnly {
		g.trusted[shortKey(key)+" (summary assumed at call sites: safety_only)"] = true
	}
	pkgPath := fc.PkgPath
	if pkgPath == "" && callee != nil && callee.Pkg != nil {
		pkgPath = callee.Pkg.Pkg.Path()
	}
	if pkgPath == "" {
		pkgPath = fr.fn.Pkg.Pkg.Path()
	}
	pre := st.clone()
	g.siteN[key]++
	siteTag := fmt.Sprintf("%s@%d", shortName(key), g.siteN[key])
	// preconditions
	for i, c := range fc.Requires {
		env := &Env{g: g, st: st, old: pre, vars: vars, pkgPath: pkgPath}
		t := env.evalBool(c.E)
		if g.fc != nil && g.fc.AssumePre[shortName(key)] && fr.fn == g.fn {
			// assume_pre <callee>: the caller's contract takes this precondition as given (listed assumption)
			g.note("precondition of " + shortKey(key) + " assumed at its calls (assume_pre): " + c.Src)
		} else {
			g.addOblig(st, "pre", fmt.Sprintf("pre.%s.%s", siteTag, clauseName(c, i)), t, c.Src)
		}
		g.assume(st, t)
	}
	if g.panicsNever && !g.ownOnly && !fc.PanicsNever && !fc.Trusted && !fc.IsLib {
		g.addOblig(st, "safety", g.safetyName("callee-may-panic", shortKey(key)), "false", "callee is not proved panic-free")
	} else if !g.panicsNever && g.fc != nil && len(g.fc.PanicOnlyWhen) > 0 && !fc.PanicsNever && !fc.IsLib {
		g.maybePanic(fr, st, "callee-may-panic", shortKey(key))
	}
	for _, c := range fc.MayPanic {
		env := &Env{g: g, st: st, old: pre, vars: vars, pkgPath: pkgPath}
		t := env.evalBool(c.E)
		g.guard(fr, st, "callee-panic", shortKey(key)+" when "+c.Src, smtNot(t))
	}
	if fc.NoReturn {
		if g.fc != nil && g.fc.AssumeUnreachable[shortName(key)] && fr.fn == g.fn {
			g.trusted["calls to "+shortKey(key)+" in "+shortKey(funcKey(g.fn))+" are assumed unreachable (assume_unreachable)"] = true
			st.reach = "false"
			return g.freshValue(st, "noret", rt)
		}
		g.panicHere(fr, st, "noreturn-call", shortKey(key))
		return g.freshValue(st, "noret", rt)
	}
	// frame: havoc what the callee may modify
	for mi, m := range fc.Modifies {
		env := &Env{g: g, st: pre, old: pre, vars: vars, pkgPath: pkgPath}
		if err := g.havocTarget(env, st, m); err != nil {
			g.errorf("%s: modifies clause %q of %s: %v", funcKey(fr.fn), fc.ModifiesSrc[mi], shortKey(key), err)
		}
	}
	// allocation may advance
	if !fc.Pure {
		na := g.fresh("alloc", sInt)
		g.addCons(fmt.Sprintf("(>= %s %s)", na, st.alloc))
		st.alloc = na
		if g.dry > 0 {
			g.wAlloc = true
		}
	}
	// results
	var res *Value
	if fc.Pure {
		res = g.pureResult(st, key, args, rt)
	} else {
		res = g.freshValue(st, "r."+shortName(key), rt)
	}
	if fc.Fresh && res != nil && len(res.L) >= 1 {
		g.addCons(smtImp(st.reach, fmt.Sprintf("(and (> %s %s) (<= %s %s))", res.L[0], pre.alloc, res.L[0], st.alloc)))
	}
	// postconditions
	post := map[string]*Value{}
	for k, v := range vars {
		post[k] = v
	}
	g.bindResults(post, res, callee, cc)
	for i, c := range fc.Ensures {
		nerr := 0
		env := &Env{g: g, st: st, old: pre, vars: post, pkgPath: pkgPath, quietErrs: &nerr}
		t := env.evalBool(c.E)
		if nerr > 0 {
			// the clause mentions the callee's locals (it is checked inside the callee): not usable at a call site
			g.note("clause " + shortKey(key) + "#post." + clauseName(c, i) + " mentions locals of the callee and is not used at call sites")
			continue
		}
		// a clause with a recorded finding is not assumed inside the failing class (or at all, if the
		// finding has no witness class): callers must not build on what is known to be false
		if f, ok := g.W.Findings[shortKey(key)+"#post."+clauseName(c, i)]; ok {
			if f.Except == "" {
				continue
			}
			ex, err := parseExpr(f.Except)
			if err != nil {
				continue
			}
			penv := &Env{g: g, st: pre, old: pre, vars: vars, pkgPath: pkgPath}
			t = smtImp(smtNot(penv.evalBool(ex)), t)
		}
		g.assume(st, t)
	}
	for i, c := range fc.AssumedEnsures {
		env := &Env{g: g, st: st, old: pre, vars: post, pkgPath: pkgPath}
		g.assume(st, env.evalBool(c.E))
		g.trusted["assumed clause "+shortKey(key)+"#"+clauseName(c, i)] = true
	}
	g.applyGhostSets(fc, st, pre, post, pkgPath)
	return res
}

func (g *Gen) bindResults(vars map[string]*Value, res *Value, callee *ssa.Function, cc *ssa.CallCommon) {
	if res == nil {
		return
	}
	var sig *types.Signature
	if cc != nil && cc.IsInvoke() {
		sig = cc.Method.Type().(*types.Signature)
	} else if callee != nil {
		sig = callee.Signature
	}
	if res.Tup != nil {
		for i, r := range res.Tup {
			vars[fmt.Sprintf("result%d", i)] = r
			if sig != nil && i < sig.Results().Len() {
				if n := sig.Results().At(i).Name(); n != "" && n != "_" {
					if _, clash := vars[n]; !clash {
						vars[n] = r
					}
				}
			}
		}
		return
	}
	if len(res.L) > 0 || res.T != nil {
		vars["result"] = res
		vars["result0"] = res
		if sig != nil && sig.Results().Len() == 1 {
			if n := sig.Results().At(0).Name(); n != "" && n != "_" {
				if _, clash := vars[n]; !clash {
					vars[n] = res
				}
			}
		}
	}
}

func (g *Gen) pureResult(st *State, key string, args []*Value, rt types.Type) *Value {
	if _, isTup := rt.(*types.Tuple); isTup {
		tup := rt.(*types.Tuple)
		v := &Value{T: rt}
		for i := 0; i < tup.Len(); i++ {
			v.Tup = append(v.Tup, g.pureResult(st, fmt.Sprintf("%s.%d", key, i), args, tup.At(i).Type()))
		}
		return v
	}
	var in []string
	var sorts []string
	for _, a := range args {
		if a.T != nil {
			if _, ok := types.Unalias(a.T).Underlying().(*types.Slice); ok && len(a.L) == 4 && isByteSlice(a.T) {
				in = append(in, g.bytesVal(st, a))
				sorts = append(sorts, sInt)
				continue
			}
		}
		sh := g.W.shapes.shape(a.T)
		for i, l := range a.L {
			if strings.HasPrefix(l, "?") {
				g.errorf("pure function %s applied to an address", key)
				l = "0"
			}
			in = append(in, l)
			sorts = append(sorts, sh[i].Sort)
		}
	}
	sh := g.W.shapes.shape(rt)
	v := &Value{T: rt, L: make([]string, len(sh))}
	for i, l := range sh {
		fn := "pf." + sanitize(shortKey(key)) + sanitize(l.Path)
		g.decl(fmt.Sprintf("(declare-fun %s (%s) %s)", fn, strings.Join(sorts, " "), l.Sort))
		if len(in) == 0 {
			v.L[i] = fn
		} else {
			v.L[i] = "(" + fn + " " + strings.Join(in, " ") + ")"
		}
	}
	g.facts(st, v)
	return v
}

func isByteSlice(t types.Type) bool {
	s, ok := types.Unalias(t).Underlying().(*types.Slice)
	if !ok {
		return false
	}
	b, ok := types.Unalias(s.Elem()).Underlying().(*types.Basic)
	return ok && b.Kind() == types.Uint8
}

// havocTarget havocs the memory denoted by a modifies-expression.
func (g *Gen) havocTarget(env *Env, st *State, m Expr) error {
	switch x := m.(type) {
	case *Ident:
		if gv, ok := g.W.C.Ghosts[x.Name]; ok {
			if gv.T.Kind == "map" {
				ks, vs, _, err := env.ghostMapSorts(gv)
				if err != nil {
					return err
				}
				srt := arrSort(ks, vs)
				key := "G|" + gv.Name + "|"
				g.compTerm(st, key, srt)
				g.setComp(st, key, srt, g.fresh("G."+gv.Name, srt))
				g.logWrite(key, "")
				return nil
			}
			if gv.T.Kind == "set" {
				et, err := g.W.lookupType(gv.T.Elem, gv.PkgPath)
				if err != nil {
					return err
				}
				srt := arrSort(g.W.shapes.shape(et)[0].Sort, sBool)
				key := "G|" + gv.Name + "|"
				g.compTerm(st, key, srt)
				g.setComp(st, key, srt, g.fresh("G."+gv.Name, srt))
				g.logWrite(key, "")
				return nil
			}
			t, err := env.ghostType(gv)
			if err != nil {
				return err
			}
			for _, l := range g.W.shapes.shape(t) {
				key := "G|" + gv.Name + "|" + l.Path
				g.compTerm(st, key, l.Sort)
				g.setComp(st, key, l.Sort, g.fresh("G."+gv.Name, l.Sort))
				g.logWrite(key, "")
			}
			return nil
		}
		if x.Name == "heap" || x.Name == "opaque_heap" {
			saved := g.savePrivate(st)
			// stable fields are protected from opaque callees and from contracts that say "modifies opaque_heap";
			// a contract that says "modifies heap" means all of it
			stable := map[string]bool{}
			if x.Name == "opaque_heap" {
				stable = g.stableComps()
			}
			for _, k := range sortedKeys(g.compSort) {
				if strings.HasPrefix(k, "G|") || stable[k] {
					continue
				}
				st.comps[k] = g.fresh("hv.C."+k, g.compSort[k])
				g.logWrite(k, "")
			}
			g.havocAllLater = true
			g.restorePrivate(st, saved)
			return nil
		}
		return fmt.Errorf("cannot modify %s", x.Name)
	case *Field:
		lv, err := env.evalLV(m)
		if err != nil {
			return err
		}
		g.havocLV(st, lv)
		return nil
	case *Deref:
		lv, err := env.evalLV(m)
		if err != nil {
			return err
		}
		g.havocLV(st, lv)
		return nil
	case *Index:
		if id, ok := x.X.(*Ident); ok {
			if gv, isG := g.W.C.Ghosts[id.Name]; isG && gv.T.Kind == "map" {
				ks, vs, _, err := env.ghostMapSorts(gv)
				if err != nil {
					return err
				}
				srt := arrSort(ks, vs)
				key := "G|" + gv.Name + "|"
				cur := g.compTerm(st, key, srt)
				k := env.eval(x.I).term()
				g.setComp(st, key, srt, smtSto(cur, k, g.fresh("G."+gv.Name, vs)))
				g.logWrite(key, k)
				return nil
			}
		}
		lv, err := env.evalLV(m)
		if err != nil {
			return err
		}
		g.havocLV(st, lv)
		return nil
	case *Call:
		switch x.Fun {
		case "elems":
			if len(x.Args) != 1 {
				return fmt.Errorf("elems(slice)")
			}
			s := env.eval(x.Args[0])
			sl, ok := types.Unalias(s.T).Underlying().(*types.Slice)
			if !ok {
				return fmt.Errorf("elems: not a slice")
			}
			for _, l := range g.W.shapes.shape(sl.Elem()) {
				key := g.elemCompKey(sl.Elem(), l.Path)
				srt := arrSort(sInt, arrSort(sInt, l.Sort))
				c := g.compTerm(st, key, srt)
				inner := g.fresh("hv.E", arrSort(sInt, l.Sort))
				g.setComp(st, key, srt, smtSto(c, s.L[0], inner))
				g.logWrite(key, s.L[0])
				g.arrPrev[inner] = arrDelta{smtSel(c, s.L[0]), s.L[1], "(+ " + s.L[1] + " " + s.L[2] + ")"}
				g.bytesWrite(smtSel(c, s.L[0]), inner, s.L[1], "(+ "+s.L[1]+" "+s.L[2]+")")
				// only the positions of s change; the rest of the backing array keeps its content
				i := g.fresh("i", sInt)
				g.addCons(fmt.Sprintf("(forall ((%s Int)) (! (=> (or (< %s %s) (>= %s (+ %s %s))) (= (select %s %s) (select %s %s))) :pattern ((select %s %s))))",
					i, i, s.L[1], i, s.L[1], s.L[2], inner, i, smtSel(c, s.L[0]), i, inner, i))
			}
			return nil
		case "pointee_elems":
			// pointee_elems(h): h is an interface (or pointer) whose pointee is a slice: the elements of that slice's backing array
			p := env.eval(x.Args[0])
			pt := p.T
			pv := p
			if types.IsInterface(p.T) {
				if p.Dyn == nil {
					return fmt.Errorf("pointee_elems(%s): dynamic type of the interface value is not known at this call site", exprString(x.Args[0]))
				}
				pt = p.Dyn
				pv = &Value{T: p.Dyn, L: []string{p.L[1]}}
			}
			ptr, ok := types.Unalias(pt).Underlying().(*types.Pointer)
			if !ok {
				return nil
			}
			sl, ok := types.Unalias(ptr.Elem()).Underlying().(*types.Slice)
			if !ok {
				return nil
			}
			sv := g.load(st, g.lvOf(nil, st, pv))
			for _, l := range g.W.shapes.shape(sl.Elem()) {
				key := g.elemCompKey(sl.Elem(), l.Path)
				srt := arrSort(sInt, arrSort(sInt, l.Sort))
				c := g.compTerm(st, key, srt)
				g.setComp(st, key, srt, smtSto(c, sv.L[0], g.fresh("hv.E", arrSort(sInt, l.Sort))))
				g.logWrite(key, sv.L[0])
			}
			return nil
		case "allelems":
			// every element of every slice/array with this element type (given by a slice expression or a type name)
			var sl *types.Slice
			tname := ""
			tptr := false
			targ := x.Args[0]
			if d, ok := targ.(*Deref); ok {
				tptr = true
				targ = d.X
			}
			switch a := targ.(type) {
			case *Ident:
				tname = a.Name
			case *Field:
				if id, ok := a.X.(*Ident); ok {
					tname = id.Name + "." + a.Name
				}
			}
			if tname != "" {
				root := strings.SplitN(tname, ".", 2)[0]
				if _, isVar := env.vars[root]; !isVar && env.lookupLocal(root) == nil {
					g.dryFacts++
					if t, terr := g.W.lookupType(&TypeX{Kind: "name", Name: tname}, env.pkgPath); terr == nil {
						if tptr {
							sl = types.NewSlice(types.NewPointer(t))
						} else if us, ok := types.Unalias(t).Underlying().(*types.Slice); ok {
							sl = us // a named slice type stands for "slices of its element type"
						} else {
							sl = types.NewSlice(t)
						}
					}
					g.dryFacts--
				}
			}
			if sl == nil {
				s := env.eval(x.Args[0])
				var ok bool
				sl, ok = types.Unalias(s.T).Underlying().(*types.Slice)
				if !ok {
					return fmt.Errorf("allelems: not a slice")
				}
			}
			for _, l := range g.W.shapes.shape(sl.Elem()) {
				key := g.elemCompKey(sl.Elem(), l.Path)
				srt := arrSort(sInt, arrSort(sInt, l.Sort))
				g.compTerm(st, key, srt)
				g.setComp(st, key, srt, g.fresh("hv.C."+key, srt))
				g.logWrite(key, "")
			}
			return nil
		case "fields":
			p := env.eval(x.Args[0])
			if types.IsInterface(p.T) {
				// fields(v) of an interface argument: the pointee of the pointer the call site boxed into it
				if p.Dyn == nil {
					return fmt.Errorf("fields(%s): dynamic type of the interface value is not known at this call site", exprString(x.Args[0]))
				}
				if _, ok := types.Unalias(p.Dyn).Underlying().(*types.Pointer); !ok {
					return nil
				}
				p = &Value{T: p.Dyn, L: []string{p.L[1]}}
			}
			lv := g.lvOf(nil, st, p)
			g.havocLV(st, lv)
			return nil
		case "mapof":
			mv := env.eval(x.Args[0])
			g.havocMap(st, mv)
			return nil
		case "allof":
			// allof(T.f): the whole component of field f of struct type T — written as allof(x.f) with any x of the type,
			// or with the (possibly package-qualified) type name itself: allof(autofile.GroupReader.curIndex)
			var lv *LValue
			if fe, ok := x.Args[0].(*Field); ok {
				tn := exprString(fe.X)
				_, isVar := env.vars[tn]
				if _, b := env.bound[tn]; b {
					isVar = true
				}
				if !isVar && !strings.ContainsAny(tn, "()[] ") {
					if t, terr := g.W.lookupType(&TypeX{Kind: "name", Name: tn}, env.pkgPath); terr == nil {
						if stt, ok := types.Unalias(t).Underlying().(*types.Struct); ok {
							for i := 0; i < stt.NumFields(); i++ {
								if stt.Field(i).Name() == fe.Name {
									lv = &LValue{Kind: lvHeap, Obj: "0", Root: t, Path: "." + fe.Name, T: stt.Field(i).Type()}
								}
							}
						}
					}
				}
			}
			if lv == nil {
				var err error
				lv, err = env.evalLV(x.Args[0])
				if err != nil {
					return err
				}
			}
			for _, l := range g.W.shapes.shape(lv.T) {
				switch lv.Kind {
				case lvHeap:
					key := g.fieldCompKey(lv.Root, lv.Path+l.Path)
					srt := arrSort(sInt, l.Sort)
					g.compTerm(st, key, srt)
					g.setComp(st, key, srt, g.fresh("hv.C."+key, srt))
					g.logWrite(key, "")
				default:
					return fmt.Errorf("allof: unsupported target")
				}
			}
			return nil
		}
	}
	return fmt.Errorf("unsupported modifies target %s", exprString(m))
}

func (g *Gen) havocLV(st *State, lv *LValue) {
	if lv.ArrIdx != "" {
		sh := g.W.shapes.shape(lv.T)
		g.writeLeaf(st, lv, sh[0], g.fresh("hv", sh[0].Sort))
		return
	}
	for _, l := range g.W.shapes.shape(lv.T) {
		g.writeLeaf(st, lv, l, g.fresh("hv"+l.Path, l.Sort))
	}
}

// ---------------------------------------------------------------------------
// builtins

func (g *Gen) builtin(fr *frame, st *State, site ssa.Instruction, b *ssa.Builtin, cc *ssa.CallCommon, rt types.Type) *Value {
	arg := func(i int) *Value { return g.val(fr, st, cc.Args[i]) }
	switch b.Name() {
	case "ssa:deferstack":
		return &Value{T: rt, L: []string{"0"}}
	case "len":
		x := arg(0)
		return &Value{T: rt, L: []string{g.lenOf(st, x)}}
	case "cap":
		x := arg(0)
		if len(x.L) == 4 {
			return &Value{T: rt, L: []string{x.L[3]}}
		}
		if a, ok := types.Unalias(x.T).Underlying().(*types.Array); ok {
			return &Value{T: rt, L: []string{fmt.Sprint(a.Len())}}
		}
		return g.freshValue(st, "cap", rt)
	case "append":
		return g.appendOp(fr, st, arg(0), arg(1), rt)
	case "copy":
		return g.copyOp(fr, st, arg(0), arg(1), rt)
	case "delete":
		g.mapDelete(fr, st, arg(0), arg(1))
		return nil
	case "panic":
		g.panicHere(fr, st, "panic", "panic()")
		return nil
	case "recover":
		g.note("recover() yields an arbitrary value")
		return g.freshValue(st, "recover", rt)
	case "print", "println":
		return nil
	case "close":
		return nil
	case "min", "max":
		x, y := arg(0).term(), arg(1).term()
		if b.Name() == "min" {
			return &Value{T: rt, L: []string{smtIte("(<= "+x+" "+y+")", x, y)}}
		}
		return &Value{T: rt, L: []string{smtIte("(>= "+x+" "+y+")", x, y)}}
	}
	g.errorf("%s: unsupported builtin %s", funcKey(fr.fn), b.Name())
	return g.freshValue(st, "builtin", rt)
}

func (g *Gen) lenOf(st *State, x *Value) string {
	switch u := types.Unalias(x.T).Underlying().(type) {
	case *types.Slice:
		return x.L[2]
	case *types.Basic:
		return "(strlen " + x.term() + ")"
	case *types.Array:
		return fmt.Sprint(u.Len())
	case *types.Pointer:
		if a, ok := types.Unalias(u.Elem()).Underlying().(*types.Array); ok {
			return fmt.Sprint(a.Len())
		}
	case *types.Map:
		key := "ML|" + typeKey(x.T)
		t := smtSel(g.compTerm(st, key, arrSort(sInt, sInt)), x.term())
		g.addCons("(<= 0 " + t + ")")
		return t
	case *types.Chan:
		return g.fresh("chanlen", sInt)
	}
	return g.fresh("len", sInt)
}

func (g *Gen) appendOp(fr *frame, st *State, s, t *Value, rt types.Type) *Value {
	sl := types.Unalias(rt).Underlying().(*types.Slice)
	et := sl.Elem()
	var tl string
	tIsString := false
	if len(t.L) == 4 {
		tl = t.L[2]
	} else if len(t.L) == 1 { // append([]byte, string...)
		tl = "(strlen " + t.term() + ")"
		tIsString = true
	} else {
		tl = "0"
	}
	nl := g.fresh("applen", sInt)
	g.addCons(fmt.Sprintf("(= %s (+ %s %s))", nl, s.L[2], tl))
	// allocation: result object is either the old one (in place) or fresh. We model the result as a fresh
	// object whose contents are prefix ++ suffix when reallocating; in-place growth writes beyond len of
	// the same backing array. To stay sound for both, the result object is chosen nondeterministically.
	inplace := g.fresh("inplace", sBool)
	o := g.newObject(st)
	robj := smtIte(inplace, s.L[0], o)
	roff := smtIte(inplace, s.L[1], "0")
	ncap := g.fresh("appcap", sInt)
	g.addCons(fmt.Sprintf("(and (>= %s %s) (<= %s 9223372036854775807) (=> %s (and (not (= %s 0)) (<= %s %s) (= %s %s))))", ncap, nl, ncap, inplace, s.L[0], nl, s.L[3], ncap, s.L[3]))
	res := &Value{T: rt, L: []string{g.nameTerm("appobj", robj), g.nameTerm("appoff", roff), nl, ncap}}
	// contents
	for _, l := range g.W.shapes.shape(et) {
		key := g.elemCompKey(et, l.Path)
		srt := arrSort(sInt, arrSort(sInt, l.Sort))
		c := g.compTerm(st, key, srt)
		nc := g.fresh("C."+key, srt)
		// every other object unchanged; result object's inner array: prefix equals s, suffix equals t
		inner := g.fresh("appdata"+l.Path, arrSort(sInt, l.Sort))
		g.addCons(smtEq(nc, smtSto(c, res.L[0], inner)))
		// absolute positions j of the result array (patterns without arithmetic): j = roff + i
		i := g.fresh("j", sInt)
		rel := "(- " + i + " " + res.L[1] + ")"
		srcS := smtSel(smtSel(c, s.L[0]), plus(s.L[1], rel))
		var srcT string
		if tIsString {
			g.decl("(declare-fun strat (Int Int) Int)")
			srcT = "(strat " + t.term() + " (- " + rel + " " + s.L[2] + "))"
		} else if len(t.L) == 4 {
			srcT = smtSel(smtSel(c, t.L[0]), plus(t.L[1], "(- "+rel+" "+s.L[2]+")"))
		}
		dst := smtSel(inner, i)
		body := fmt.Sprintf("(=> (and (<= %s %s) (< %s (+ %s %s))) (= %s %s))", res.L[1], i, i, res.L[1], s.L[2], dst, srcS)
		g.addCons(fmt.Sprintf("(forall ((%s Int)) (! %s :pattern (%s)))", i, body, dst))
		if srcT != "" {
			body2 := fmt.Sprintf("(=> (and (<= (+ %s %s) %s) (< %s (+ %s %s))) (= %s %s))", res.L[1], s.L[2], i, i, res.L[1], nl, dst, srcT)
			g.addCons(fmt.Sprintf("(forall ((%s Int)) (! %s :pattern (%s)))", i, body2, dst))
		}
		if !tIsString && len(t.L) == 4 && l.Path == "" && l.Sort == sInt && isByteType(et) {
			// content identity of the result: concatenation of the two operands' identities
			g.decl("(declare-fun bytescat (Int Int) Int)")
			g.addCons(fmt.Sprintf("(= (bytesval %s %s %s) (bytescat (bytesval %s %s %s) (bytesval %s %s %s)))", inner, res.L[1], nl,
				smtSel(c, s.L[0]), s.L[1], s.L[2], smtSel(c, t.L[0]), t.L[1], t.L[2]))
			g.noteBytes(inner, res.L[1], nl)
			// ... whose first len(s) bytes are s and whose last len(t) bytes are t
			g.addCons(fmt.Sprintf("(= (bytesval %s %s %s) (bytesval %s %s %s))", inner, res.L[1], s.L[2], smtSel(c, s.L[0]), s.L[1], s.L[2]))
			g.addCons(fmt.Sprintf("(= (bytesval %s (+ %s %s) %s) (bytesval %s %s %s))", inner, res.L[1], s.L[2], t.L[2], smtSel(c, t.L[0]), t.L[1], t.L[2]))
		}
		// in place: cells outside [off+len, off+newlen) of the old object keep their values
		body3 := fmt.Sprintf("(=> (and %s (or (< %s (+ %s %s)) (>= %s (+ %s %s)))) (= (select %s %s) (select (select %s %s) %s)))", inplace, i, s.L[1], s.L[2], i, s.L[1], nl, inner, i, c, s.L[0], i)
		g.addCons(fmt.Sprintf("(forall ((%s Int)) (! %s :pattern ((select %s %s))))", i, body3, inner, i))
		g.setComp(st, key, srt, nc)
		g.logWrite(key, res.L[0])
	}
	return res
}

func (g *Gen) nameTerm(prefix, t string) string {
	if !strings.HasPrefix(t, "(") {
		return t
	}
	n := g.fresh(prefix, sInt)
	g.addCons(smtEq(n, t))
	return n
}

func (g *Gen) copyOp(fr *frame, st *State, dst, src *Value, rt types.Type) *Value {
	var sl string
	srcIsString := len(src.L) == 1
	if srcIsString {
		sl = "(strlen " + src.term() + ")"
	} else {
		sl = src.L[2]
	}
	n := g.fresh("copyn", sInt)
	g.addCons(fmt.Sprintf("(= %s (ite (<= %s %s) %s %s))", n, dst.L[2], sl, dst.L[2], sl))
	et := types.Unalias(dst.T).Underlying().(*types.Slice).Elem()
	for _, l := range g.W.shapes.shape(et) {
		key := g.elemCompKey(et, l.Path)
		srt := arrSort(sInt, arrSort(sInt, l.Sort))
		c := g.compTerm(st, key, srt)
		nc := g.fresh("C."+key, srt)
		inner := g.fresh("copydata"+l.Path, arrSort(sInt, l.Sort))
		g.addCons(smtEq(nc, smtSto(c, dst.L[0], inner)))
		i := g.fresh("i", sInt)
		var srcT string
		if srcIsString {
			g.decl("(declare-fun strat (Int Int) Int)")
			srcT = "(strat " + src.term() + " (- " + i + " " + dst.L[1] + "))"
		} else {
			srcT = smtSel(smtSel(c, src.L[0]), plus(src.L[1], "(- "+i+" "+dst.L[1]+")"))
		}
		body := fmt.Sprintf("(= (select %s %s) (ite (and (<= %s %s) (< %s (+ %s %s))) %s (select (select %s %s) %s)))", inner, i, dst.L[1], i, i, dst.L[1], n, srcT, c, dst.L[0], i)
		g.addCons(fmt.Sprintf("(forall ((%s Int)) (! %s :pattern ((select %s %s))))", i, body, inner, i))
		g.setComp(st, key, srt, nc)
		g.logWrite(key, dst.L[0])
		g.arrPrev[inner] = arrDelta{smtSel(c, dst.L[0]), dst.L[1], "(+ " + dst.L[1] + " " + n + ")"}
		g.bytesWrite(smtSel(c, dst.L[0]), inner, dst.L[1], "(+ "+dst.L[1]+" "+n+")")
		if !srcIsString && l.Path == "" && l.Sort == sInt && isByteType(et) {
			// the copied range carries the abstract content identity of the source range
			g.addCons(fmt.Sprintf("(= (bytesval %s %s %s) (bytesval %s %s %s))", inner, dst.L[1], n, smtSel(c, src.L[0]), src.L[1], n))
		}
	}
	return &Value{T: rt, L: []string{n}}
}

// ---------------------------------------------------------------------------
// maps

func (g *Gen) mapKeys(mt types.Type) (ksort string, velem types.Type, ok bool) {
	m := types.Unalias(mt).Underlying().(*types.Map)
	ks := g.W.shapes.shape(m.Key())
	if len(ks) != 1 {
		return "", nil, false
	}
	return ks[0].Sort, m.Elem(), true
}

func (g *Gen) mapInit(st *State, mt types.Type, o string) {
	ks, ve, ok := g.mapKeys(mt)
	if !ok {
		return
	}
	tk := typeKey(mt)
	dk := "MD|" + tk
	srt := arrSort(sInt, arrSort(ks, sBool))
	g.setComp(st, dk, srt, smtSto(g.compTerm(st, dk, srt), o, fmt.Sprintf("((as const (Array %s Bool)) false)", ks)))
	g.logWrite(dk, o)
	lk := "ML|" + tk
	g.setComp(st, lk, arrSort(sInt, sInt), smtSto(g.compTerm(st, lk, arrSort(sInt, sInt)), o, "0"))
	g.logWrite(lk, o)
	for _, l := range g.W.shapes.shape(ve) {
		vk := "MV|" + tk + "|" + l.Path
		vs := arrSort(sInt, arrSort(ks, l.Sort))
		g.setComp(st, vk, vs, smtSto(g.compTerm(st, vk, vs), o, fmt.Sprintf("((as const (Array %s %s)) %s)", ks, l.Sort, zeroTerm(l.Sort))))
		g.logWrite(vk, o)
	}
}

func (g *Gen) havocMap(st *State, mv *Value) {
	ks, ve, ok := g.mapKeys(mv.T)
	if !ok {
		return
	}
	tk := typeKey(mv.T)
	o := mv.term()
	dk := "MD|" + tk
	srt := arrSort(sInt, arrSort(ks, sBool))
	g.setComp(st, dk, srt, smtSto(g.compTerm(st, dk, srt), o, g.fresh("hv.dom", arrSort(ks, sBool))))
	g.logWrite(dk, o)
	lk := "ML|" + tk
	nl := g.fresh("hv.maplen", sInt)
	g.addCons("(<= 0 " + nl + ")")
	g.setComp(st, lk, arrSort(sInt, sInt), smtSto(g.compTerm(st, lk, arrSort(sInt, sInt)), o, nl))
	g.logWrite(lk, o)
	for _, l := range g.W.shapes.shape(ve) {
		vk := "MV|" + tk + "|" + l.Path
		vs := arrSort(sInt, arrSort(ks, l.Sort))
		g.setComp(st, vk, vs, smtSto(g.compTerm(st, vk, vs), o, g.fresh("hv.mapval", arrSort(ks, l.Sort))))
		g.logWrite(vk, o)
	}
}

func (g *Gen) mapDomTerm(st *State, mv *Value) (string, string) {
	ks, _, _ := g.mapKeys(mv.T)
	dk := "MD|" + typeKey(mv.T)
	return smtSel(g.compTerm(st, dk, arrSort(sInt, arrSort(ks, sBool))), mv.term()), ks
}

func (g *Gen) mapGet(st *State, mv *Value, k string) (*Value, string) {
	ks, ve, ok := g.mapKeys(mv.T)
	if !ok {
		g.errorf("map with composite key type %s unsupported", typeKey(mv.T))
		return g.freshValue(st, "mapval", types.Unalias(mv.T).Underlying().(*types.Map).Elem()), g.fresh("mapok", sBool)
	}
	tk := typeKey(mv.T)
	dom, _ := g.mapDomTerm(st, mv)
	in := smtAnd("(not (= "+mv.term()+" 0))", smtSel(dom, k))
	sh := g.W.shapes.shape(ve)
	v := &Value{T: ve, L: make([]string, len(sh))}
	for i, l := range sh {
		vk := "MV|" + tk + "|" + l.Path
		vs := arrSort(sInt, arrSort(ks, l.Sort))
		v.L[i] = smtIte(in, smtSel(smtSel(g.compTerm(st, vk, vs), mv.term()), k), zeroTerm(l.Sort))
	}
	g.facts(st, v)
	g.allocBound(st, v)
	return v, in
}

func (g *Gen) lookup(fr *frame, st *State, i *ssa.Lookup) {
	x := g.val(fr, st, i.X)
	if _, ok := types.Unalias(i.X.Type()).Underlying().(*types.Map); !ok {
		// string index
		idx := g.val(fr, st, i.Index).term()
		g.guard(fr, st, "index", exprOr(fr.text[i], i.Name()), fmt.Sprintf("(and (<= 0 %s) (< %s (strlen %s)))", idx, idx, x.term()))
		g.decl("(declare-fun strat (Int Int) Int)")
		v := &Value{T: i.Type(), L: []string{"(strat " + x.term() + " " + idx + ")"}}
		g.facts(st, v)
		fr.regs[i] = v
		return
	}
	kv := g.val(fr, st, i.Index)
	if len(kv.L) != 1 {
		g.errorf("%s: map lookup with composite key unsupported", funcKey(fr.fn))
		fr.regs[i] = g.freshValue(st, "lookup", i.Type())
		return
	}
	v, in := g.mapGet(st, x, kv.term())
	if i.CommaOk {
		fr.regs[i] = &Value{T: i.Type(), Tup: []*Value{v, {T: types.Typ[types.Bool], L: []string{in}}}}
	} else {
		fr.regs[i] = v
	}
}

func (g *Gen) mapUpdate(fr *frame, st *State, i *ssa.MapUpdate) {
	m := g.val(fr, st, i.Map)
	kv := g.val(fr, st, i.Key)
	v := g.val(fr, st, i.Value)
	g.guard(fr, st, "nilmap", exprOr(fr.text[i.Map], i.Map.Name())+"[...] = ...", "(not (= "+m.term()+" 0))")
	ks, ve, ok := g.mapKeys(m.T)
	if !ok || len(kv.L) != 1 {
		g.errorf("%s: map update with composite key unsupported", funcKey(fr.fn))
		return
	}
	tk := typeKey(m.T)
	o, k := m.term(), kv.term()
	dk := "MD|" + tk
	dsrt := arrSort(sInt, arrSort(ks, sBool))
	dc := g.compTerm(st, dk, dsrt)
	was := smtSel(smtSel(dc, o), k)
	lk := "ML|" + tk
	lc := g.compTerm(st, lk, arrSort(sInt, sInt))
	g.setComp(st, lk, arrSort(sInt, sInt), smtSto(lc, o, smtIte(was, smtSel(lc, o), "(+ "+smtSel(lc, o)+" 1)")))
	g.logWrite(lk, o)
	g.setComp(st, dk, dsrt, smtSto(dc, o, smtSto(smtSel(dc, o), k, "true")))
	g.logWrite(dk, o)
	for li, l := range g.W.shapes.shape(ve) {
		vk := "MV|" + tk + "|" + l.Path
		vs := arrSort(sInt, arrSort(ks, l.Sort))
		vc := g.compTerm(st, vk, vs)
		g.setComp(st, vk, vs, smtSto(vc, o, smtSto(smtSel(vc, o), k, v.L[li])))
		g.logWrite(vk, o)
	}
}

func (g *Gen) mapDelete(fr *frame, st *State, m, kv *Value) {
	ks, _, ok := g.mapKeys(m.T)
	if !ok || len(kv.L) != 1 {
		g.errorf("%s: map delete with composite key unsupported", funcKey(fr.fn))
		return
	}
	tk := typeKey(m.T)
	o, k := m.term(), kv.term()
	dk := "MD|" + tk
	dsrt := arrSort(sInt, arrSort(ks, sBool))
	dc := g.compTerm(st, dk, dsrt)
	was := smtAnd("(not (= "+o+" 0))", smtSel(smtSel(dc, o), k))
	lk := "ML|" + tk
	lc := g.compTerm(st, lk, arrSort(sInt, sInt))
	g.setComp(st, lk, arrSort(sInt, sInt), smtSto(lc, o, smtIte(was, "(- "+smtSel(lc, o)+" 1)", smtSel(lc, o))))
	g.logWrite(lk, o)
	g.setComp(st, dk, dsrt, smtSto(dc, o, smtSto(smtSel(dc, o), k, "false")))
	g.logWrite(dk, o)
}

func (g *Gen) iterSort(it ssa.Value) string {
	r := it.(*ssa.Range)
	if m, ok := types.Unalias(r.X.Type()).Underlying().(*types.Map); ok {
		ks := g.W.shapes.shape(m.Key())
		if len(ks) == 1 {
			return arrSort(ks[0].Sort, sBool)
		}
	}
	return sArrB
}

func (g *Gen) iterInLoop(it ssa.Value, li *loopInfo) bool {
	for _, ref := range *it.Referrers() {
		if n, ok := ref.(*ssa.Next); ok && li.body[n.Block()] {
			return true
		}
	}
	return false
}

func (g *Gen) rangeInit(fr *frame, st *State, i *ssa.Range) {
	x := g.val(fr, st, i.X)
	fr.regs[i] = &Value{T: i.Type(), L: []string{"?iter"}, Tup: []*Value{x}}
	if _, ok := types.Unalias(i.X.Type()).Underlying().(*types.Map); ok {
		srt := g.iterSort(i)
		ks := srt[len("(Array ") : len(srt)-len(" Bool)")]
		st.iters[i] = fmt.Sprintf("((as const (Array %s Bool)) false)", ks)
	} else {
		st.iters[i] = "((as const (Array Int Bool)) false)"
	}
}

func (g *Gen) rangeNext(fr *frame, st *State, i *ssa.Next) {
	itv := g.val(fr, st, i.Iter)
	r := i.Iter.(*ssa.Range)
	tup := i.Type().(*types.Tuple)
	if i.IsString {
		g.note("range over string yields arbitrary runes")
		fr.regs[i] = &Value{T: i.Type(), Tup: []*Value{g.freshValue(st, "ok", types.Typ[types.Bool]), g.freshValue(st, "idx", tup.At(1).Type()), g.freshValue(st, "rune", tup.At(2).Type())}}
		return
	}
	m := itv.Tup[0]
	ks, _, ok := g.mapKeys(m.T)
	if !ok {
		g.errorf("%s: range over map with composite key unsupported", funcKey(fr.fn))
		fr.regs[i] = g.freshValue(st, "next", i.Type())
		return
	}
	visited := st.iters[r]
	dom, _ := g.mapDomTerm(st, m)
	okv := g.fresh("next.ok", sBool)
	k := g.fresh("next.k", ks)
	kval := &Value{T: tup.At(1).Type(), L: []string{k}}
	if types.Unalias(tup.At(1).Type()) == types.Typ[types.Invalid] {
		kval.T = types.Unalias(m.T).Underlying().(*types.Map).Key()
	}
	kval.T = types.Unalias(m.T).Underlying().(*types.Map).Key()
	g.facts(st, kval)
	nonnil := "(not (= " + m.term() + " 0))"
	g.assume(st, smtImp(okv, smtAnd(nonnil, smtSel(dom, k), smtNot(smtSel(visited, k)))))
	kk := g.fresh("kk", ks)
	g.assume(st, smtImp(smtNot(okv), fmt.Sprintf("(forall ((%s %s)) (! (=> (and %s (select %s %s)) (select %s %s)) :pattern ((select %s %s))))", kk, ks, nonnil, dom, kk, visited, kk, visited, kk)))
	st.iters[r] = smtIte(okv, smtSto(visited, k, "true"), visited)
	v, _ := g.mapGet(st, m, k)
	v.T = types.Unalias(m.T).Underlying().(*types.Map).Elem()
	fr.regs[i] = &Value{T: i.Type(), Tup: []*Value{{T: types.Typ[types.Bool], L: []string{okv}}, kval, v}}
}

// ---------------------------------------------------------------------------
// defers, channels

func (g *Gen) runDefer(fr *frame, st *State, d *deferRec) {
	// the deferred call runs only if the Defer instruction was reached on this path
	armed := d.armed
	cc := d.instr.Common()
	var rt types.Type = types.NewTuple()
	if sig, ok := cc.Value.Type().Underlying().(*types.Signature); ok && !cc.IsInvoke() {
		rt = sig.Results()
	} else if cc.IsInvoke() {
		rt = cc.Method.Type().(*types.Signature).Results()
	}
	if armed == "true" || armed == g.entryReach {
		g.callWithArgs(fr, st, d.instr, cc, d.fnv, d.args, rt)
		return
	}
	// conditional: run on a copy and merge
	a := st.clone()
	a.reach = g.nameReach(smtAnd(st.reach, armed), "defer")
	g.callWithArgs(fr, a, d.instr, cc, d.fnv, d.args, rt)
	b := st.clone()
	b.reach = g.nameReach(smtAnd(st.reach, smtNot(armed)), "nodefer")
	m := g.merge([]inEdge{{st: a, cond: a.reach}, {st: b, cond: b.reach}}, "defer")
	*st = *m
}

// callWithArgs performs a call with pre-evaluated function value and arguments (defers).
func (g *Gen) callWithArgs(fr *frame, st *State, site ssa.Instruction, cc *ssa.CallCommon, fnv *Value, args []*Value, rt types.Type) {
	if b, ok := cc.Value.(*ssa.Builtin); ok {
		if b.Name() == "recover" || b.Name() == "close" || b.Name() == "print" || b.Name() == "println" {
			return
		}
	}
	var key string
	var callee *ssa.Function
	var bindings []*Value
	all := args
	if cc.IsInvoke() {
		key = cc.Method.FullName()
		all = append([]*Value{fnv}, args...)
	} else if fnv != nil && fnv.Fn != nil {
		callee = fnv.Fn.Fn
		bindings = fnv.Fn.Bindings
		key = funcKey(callee)
	} else {
		g.errorf("%s: deferred call through unknown function value", funcKey(fr.fn))
		return
	}
	fc := g.W.C.Funcs[key]
	if callee != nil && len(callee.Blocks) > 0 && ((fc != nil && fc.Inline) || (fc == nil && callee.Parent() != nil)) {
		if fr.depth < maxInlineDepth {
			g.inlineCall(fr, st, callee, all, bindings, rt)
		}
		return
	}
	if fc == nil {
		if g.W.C.isSink(key) {
			g.trusted["sink "+shortKey(key)] = true
			return
		}
		g.errorf("%s: uncontracted deferred call to %s", funcKey(fr.fn), key)
		return
	}
	g.applyContract(fr, st, fc, key, callee, cc, all, rt)
}

func (g *Gen) send(fr *frame, st *State, i *ssa.Send) {
	ch := g.val(fr, st, i.Chan)
	v := g.val(fr, st, i.X)
	g.chanAppend(st, ch, v)
}

// chanAppend records a value sent on a channel: ghost sequence per channel object.
func (g *Gen) chanAppend(st *State, ch, v *Value) {
	et := types.Unalias(ch.T).Underlying().(*types.Chan).Elem()
	tk := typeKey(et)
	nk := "CHN|" + tk
	nc := g.compTerm(st, nk, arrSort(sInt, sInt))
	n := smtSel(nc, ch.term())
	for li, l := range g.W.shapes.shape(et) {
		dk := "CHD|" + tk + "|" + l.Path
		srt := arrSort(sInt, arrSort(sInt, l.Sort))
		dc := g.compTerm(st, dk, srt)
		g.setComp(st, dk, srt, smtSto(dc, ch.term(), smtSto(smtSel(dc, ch.term()), n, v.L[li])))
		g.logWrite(dk, ch.term())
	}
	g.setComp(st, nk, arrSort(sInt, sInt), smtSto(nc, ch.term(), "(+ "+n+" 1)"))
	g.logWrite(nk, ch.term())
}

func (g *Gen) selectOp(fr *frame, st *State, i *ssa.Select) {
	g.note("select picks an arbitrary ready case; received values are arbitrary")
	tup := i.Type().(*types.Tuple)
	res := &Value{T: i.Type()}
	idx := g.freshValue(st, "sel.idx", tup.At(0).Type())
	lo := 0
	if !i.Blocking {
		lo = -1
	}
	g.assume(st, fmt.Sprintf("(and (<= %d %s) (< %s %d))", lo, idx.term(), idx.term(), len(i.States)))
	res.Tup = append(res.Tup, idx)
	for k := 1; k < tup.Len(); k++ {
		res.Tup = append(res.Tup, g.freshValue(st, fmt.Sprintf("sel.%d", k), tup.At(k).Type()))
	}
	// sends among the cases: recorded only when chosen — approximated by recording nothing (noted)
	for _, s := range i.States {
		if s.Send != nil {
			g.note("a send inside select is not recorded in the channel trace")
		}
	}
	fr.regs[i] = res
}

// opaqueCall: an uncontracted callee under `opaque_calls`: it may panic, may change any memory and
// returns an arbitrary value. Ghost state (lock sets, traces) is assumed untouched (listed).
func (g *Gen) opaqueCall(fr *frame, st *State, key string, rt types.Type) *Value {
	g.trusted["opaque "+shortKey(key)] = true
	g.note("opaque callees are assumed not to lock or unlock the mutexes tracked by this function")
	g.maybePanic(fr, st, "opaque-callee-may-panic", shortKey(key))
	saved := g.savePrivate(st)
	stable := g.stableComps()
	for _, k := range sortedKeys(g.compSort) {
		if strings.HasPrefix(k, "G|") || strings.HasPrefix(k, "CHN|") || strings.HasPrefix(k, "CHD|") || stable[k] {
			continue
		}
		st.comps[k] = g.fresh("hv.C."+k, g.compSort[k])
		g.logWrite(k, "")
	}
	g.restorePrivate(st, saved)
	na := g.fresh("alloc", sInt)
	g.addCons(fmt.Sprintf("(>= %s %s)", na, st.alloc))
	st.alloc = na
	if g.dry > 0 {
		g.wAlloc = true
	}
	return g.freshValue(st, "r."+shortName(key), rt)
}

// savePrivate / restorePrivate keep the contents of closure-captured locals across a heap havoc:
// no callee can reach them.
func (g *Gen) savePrivate(st *State) []*Value {
	var out []*Value
	for _, lv := range g.privBoxes {
		out = append(out, g.load(st, lv))
	}
	return out
}

func (g *Gen) restorePrivate(st *State, saved []*Value) {
	for i, lv := range g.privBoxes {
		if i < len(saved) {
			g.store(st, lv, saved[i])
		}
	}
}

// maybePanic: the current point may panic (for reasons the verifier cannot see). Acceptable unless the
// function is panics_never or restricts where panics may happen.
func (g *Gen) maybePanic(fr *frame, st *State, kind, what string) {
	if g.fc == nil || g.ownOnly || (!g.panicsNever && len(g.fc.PanicOnlyWhen) == 0) {
		return
	}
	goal := "false"
	if len(g.fc.PanicOnlyWhen) > 0 {
		goal = g.panicAllowed(st)
	}
	g.addOblig(st, "safety", g.safetyName(kind, what), goal, what)
}

// panicAllowed evaluates the panic_only_when clauses in the current state.
func (g *Gen) panicAllowed(st *State) string {
	var alts []string
	for _, c := range g.fc.PanicOnlyWhen {
		env := &Env{g: g, st: st, old: g.entry, vars: g.entryParams, pkgPath: g.fn.Pkg.Pkg.Path()}
		alts = append(alts, env.evalBool(c.E))
	}
	return smtOr(alts...)
}

const heldKey = "G|$held|"

// addrID: an integer identity for the address of a field of a heap object (used for mutexes).
func (g *Gen) addrID(v *Value) (string, bool) {
	lv := v.LV
	if lv == nil {
		if len(v.L) == 1 && !strings.HasPrefix(v.L[0], "?") {
			return v.L[0], true
		}
		return "", false
	}
	switch lv.Kind {
	case lvHeap, lvBox:
		return fmt.Sprintf("(+ (* %s 4096) %s)", lv.Obj, g.typeID(types.NewPointer(types.Typ[types.Int]))+"000"[:0]+g.pathID(typeKey(lv.Root)+lv.Path)), true
	}
	return "", false
}

func (g *Gen) pathID(p string) string {
	if g.pathIDs == nil {
		g.pathIDs = map[string]int{}
	}
	id, ok := g.pathIDs[p]
	if !ok {
		id = len(g.pathIDs) + 1
		g.pathIDs[p] = id
	}
	return fmt.Sprint(id)
}

// mutexOp tracks Lock/Unlock of sync mutexes in the ghost set of held locks.
func (g *Gen) mutexOp(st *State, key string, args []*Value) bool {
	var lock bool
	switch key {
	case "(*sync.Mutex).Lock", "(*sync.RWMutex).Lock", "(*sync.RWMutex).RLock":
		lock = true
	case "(*sync.Mutex).Unlock", "(*sync.RWMutex).Unlock", "(*sync.RWMutex).RUnlock":
		lock = false
	default:
		return false
	}
	g.trusted["sink "+key] = true
	if len(args) == 0 {
		return true
	}
	id, ok := g.addrID(args[0])
	if !ok {
		return true
	}
	srt := arrSort(sInt, sBool)
	cur := g.compTerm(st, heldKey, srt)
	v := "false"
	if lock {
		v = "true"
	}
	g.setComp(st, heldKey, srt, smtSto(cur, id, v))
	return true
}

// stableComps: components named by the function's `stable` clauses (fields assumed to be written only
// at construction time; opaque callees do not havoc them).
func (g *Gen) stableComps() map[string]bool {
	if g.stableKeys != nil {
		return g.stableKeys
	}
	g.stableKeys = map[string]bool{}
	if g.fc == nil {
		return g.stableKeys
	}
	for i, e := range g.fc.Stable {
		env := &Env{g: g, st: g.entry, old: g.entry, vars: g.entryParams, pkgPath: g.fn.Pkg.Pkg.Path()}
		if c, ok := e.(*Call); ok && c.Fun == "mapof" && len(c.Args) == 1 {
			// stable mapof(m): the components of m's map type
			g.dryFacts++
			mv := env.eval(c.Args[0])
			g.dryFacts--
			if _, ve, ok := g.mapKeys(mv.T); ok {
				tk := typeKey(mv.T)
				g.stableKeys["MD|"+tk] = true
				g.stableKeys["ML|"+tk] = true
				for _, l := range g.W.shapes.shape(ve) {
					g.stableKeys["MV|"+tk+"|"+l.Path] = true
				}
				g.note("map contents assumed not to be written by opaque callees: " + g.fc.StableSrc[i])
				continue
			}
		}
		if c, ok := e.(*Call); ok && c.Fun == "elems" && len(c.Args) == 1 {
			// stable elems(*pkg.T) / elems(pkg.T): slices whose elements have that type (e.g. a local slice literal of list pointers)
			var tn string
			ptr := false
			arg := c.Args[0]
			if d, ok := arg.(*Deref); ok {
				ptr = true
				arg = d.X
			}
			switch a := arg.(type) {
			case *Ident:
				tn = a.Name
			case *Field:
				if id, ok := a.X.(*Ident); ok {
					tn = id.Name + "." + a.Name
				}
			}
			if tn != "" {
				root := strings.SplitN(tn, ".", 2)[0]
				if _, isVar := env.vars[root]; !isVar {
					if t, terr := g.W.lookupType(&TypeX{Kind: "name", Name: tn}, env.pkgPath); terr == nil {
						if ptr {
							t = types.NewPointer(t)
						}
						for _, l := range g.W.shapes.shape(t) {
							g.stableKeys[g.elemCompKey(t, l.Path)] = true
						}
						g.note("elements assumed not to be written by opaque callees: " + g.fc.StableSrc[i])
						continue
					}
				}
			}
			// stable elems(x): the element components of x's element type
			g.dryFacts++
			sv := env.eval(c.Args[0])
			g.dryFacts--
			if sl, ok := types.Unalias(sv.T).Underlying().(*types.Slice); ok {
				for _, l := range g.W.shapes.shape(sl.Elem()) {
					g.stableKeys[g.elemCompKey(sl.Elem(), l.Path)] = true
				}
				g.note("elements assumed not to be written by opaque callees: " + g.fc.StableSrc[i])
				continue
			}
		}
		if fe, ok := e.(*Field); ok {
			if id, ok := fe.X.(*Ident); ok {
				if _, isVar := env.vars[id.Name]; !isVar {
					if imp := env.findImport(id.Name); imp != nil {
						if o, ok := imp.Scope().Lookup(fe.Name).(*types.Var); ok {
							// an imported package-level variable that opaque callees do not assign
							for _, l := range g.W.shapes.shape(o.Type()) {
								g.stableKeys["V|"+shortPkg(imp)+"."+fe.Name+"|"+l.Path] = true
							}
							g.note("package-level variable assumed not to be assigned by opaque callees: " + g.fc.StableSrc[i])
							continue
						}
					}
				}
			}
		}
		lv, err := env.evalLV(e)
		if err == nil && lv != nil && lv.Kind == lvGlobal {
			// a package-level variable that opaque callees do not assign
			for _, l := range g.W.shapes.shape(lv.T) {
				g.stableKeys["V|"+lv.Global+"|"+lv.Path+l.Path] = true
			}
			g.note("package-level variable assumed not to be assigned by opaque callees: " + g.fc.StableSrc[i])
			continue
		}
		if err != nil || lv == nil || lv.Kind != lvHeap {
			g.errorf("stable clause %q: %v", g.fc.StableSrc[i], err)
			continue
		}
		for _, l := range g.W.shapes.shape(lv.T) {
			g.stableKeys[g.fieldCompKey(lv.Root, lv.Path+l.Path)] = true
		}
		g.note("field assumed to be written only at construction: " + g.fc.StableSrc[i])
	}
	return g.stableKeys
}

// applyGhostSets performs the ghost assignments of a contract (ghost_set name = expr) at the return point.
func (g *Gen) applyGhostSets(fc *FuncContract, st, old *State, vars map[string]*Value, pkgPath string) {
	for _, gs := range fc.GhostSets {
		gv, ok := g.W.C.Ghosts[gs.Name]
		if !ok {
			g.errorf("ghost_set: unknown ghost variable %s", gs.Name)
			continue
		}
		env := &Env{g: g, st: st, old: old, vars: vars, pkgPath: pkgPath}
		v := env.eval(gs.E)
		t, err := env.ghostType(gv)
		if err != nil {
			g.errorf("ghost_set %s: %v", gs.Name, err)
			continue
		}
		sh := g.W.shapes.shape(t)
		if isNilVal(v) {
			v = g.zeroValue(t)
		}
		if len(v.L) != len(sh) {
			g.errorf("ghost_set %s: value has %d leaves, variable has %d", gs.Name, len(v.L), len(sh))
			continue
		}
		for i, l := range sh {
			key := "G|" + gv.Name + "|" + l.Path
			g.compTerm(st, key, l.Sort)
			g.setComp(st, key, l.Sort, v.L[i])
			g.logWrite(key, "")
		}
	}
}
