package main

// Verification of one function against its contract, and of lemmas.

import (
	"sort"
	"fmt"
	"go/types"
	"strings"
	"time"

	"golang.org/x/tools/go/ssa"
)

type FuncResult struct {
	Key     string
	Short   string
	Obls    []*Oblig
	Errs    []string
	Notes   []string
	Trusted []string
	Inlined []string
	Decls   []string
	Cons    []string
	Axioms  []string
	GenMs   int64
	Inputs  []string // scalar input leaf names (for get-value)
	exceptTerms map[string]string
	Aliases [][3]string // name, sort, term: model-readable names for fields of pointer inputs
	InputDesc map[string]string
}

func expandKey(short string) string {
	if strings.Contains(short, modPath) {
		return short
	}
	// stdlib keys have no slash-dot structure we need to touch
	switch {
	case strings.HasPrefix(short, "(*"):
		return "(*" + modPath + "/" + short[2:]
	case strings.HasPrefix(short, "("):
		return "(" + modPath + "/" + short[1:]
	}
	return modPath + "/" + short
}

func (g *Gen) newEntryState() *State {
	g.decl("(declare-const alloc!0 Int)")
	g.addCons("(>= alloc!0 0)")
	return &State{cells: map[*ssa.Alloc][]string{}, comps: map[string]string{}, alloc: "alloc!0", reach: "true", iters: map[ssa.Value]string{}}
}

func (g *Gen) inputValue(st *State, name string, t types.Type, res *FuncResult) *Value {
	sh := g.W.shapes.shape(t)
	v := &Value{T: t, L: make([]string, len(sh))}
	for i, l := range sh {
		n := "in_" + sanitize(name+l.Path)
		g.decl(fmt.Sprintf("(declare-const %s %s)", n, l.Sort))
		v.L[i] = n
		if l.Sort == sInt || l.Sort == sBool {
			res.Inputs = append(res.Inputs, n)
			res.InputDesc[n] = name + l.Path + " " + typeKey(t)
		}
	}
	g.facts(st, v)
	g.allocBound(st, v)
	return v
}

func verifyFunc(w *World, key string) *FuncResult {
	t0 := time.Now()
	res := &FuncResult{Key: key, Short: shortKey(key), InputDesc: map[string]string{}}
	fn := w.findFunc(key)
	if fn == nil {
		res.Errs = append(res.Errs, fmt.Sprintf("function %s not found in the loaded packages (renamed or removed?)", key))
		return res
	}
	fc := w.C.Funcs[key]
	if fc == nil {
		res.Errs = append(res.Errs, fmt.Sprintf("no contract for %s", key))
		return res
	}
	g := newGen(w, fn, fc)
	g.panicsNever = fc.PanicsNever || fc.OwnPanicsNever
	g.ownOnly = fc.OwnPanicsNever && !fc.PanicsNever
	func() {
		defer func() {
			if r := recover(); r != nil {
				g.errorf("generator failure in %s: %v", key, r)
				if debugPanics {
					panic(r)
				}
			}
		}()
		st := g.newEntryState()
		fr := g.newFrame(fn, 0)
		fr.top = true
		var args []*Value
		params := map[string]*Value{}
		for _, p := range fn.Params {
			v := g.inputValue(st, p.Name(), p.Type(), res)
			args = append(args, v)
			params[p.Name()] = v
		}
		var bindings []*Value
		for _, fv := range fn.FreeVars {
			v := g.inputValue(st, "fv_"+fv.Name(), fv.Type(), res)
			bindings = append(bindings, v)
			params[fv.Name()] = v
		}
		// positional names of the contract header: aliases for renamed receiver / parameters
		g.alias = map[string]string{}
		if len(fc.ParamNames) == len(fn.Params) {
			for i, p := range fn.Params {
				if n := fc.ParamNames[i]; n != p.Name() && n != "" && n != "_" {
					if _, clash := params[n]; !clash {
						params[n] = args[i]
						g.alias[n] = p.Name()
						g.note(fmt.Sprintf("the contract's parameter name %s is bound by position to %s", n, p.Name()))
					}
				}
			}
		}
		// locals name=k: the k-th named local by position, when no local of that name exists any more
		if len(fc.Locals) > 0 {
			named := namedLocals(fn)
			have := map[string]bool{}
			for _, a := range named {
				have[a.Comment] = true
			}
			for n, k := range fc.Locals {
				if !have[n] && k >= 0 && k < len(named) {
					if _, isParam := params[n]; !isParam {
						g.alias[n] = named[k].Comment
						g.note(fmt.Sprintf("the contract's local name %s is bound by position (#%d) to %s", n, k, named[k].Comment))
					}
				}
			}
		}
		g.entry = st.clone()
		g.entryParams = params
		g.entryReach = "true"
		pkgPath := fn.Pkg.Pkg.Path()
		if exceptHook != nil {
			exceptHook(g, params, pkgPath)
		}
		// lemmas used
		for _, ln := range fc.Uses {
			g.useLemma(ln)
		}
		// requires
		for _, c := range fc.Requires {
			env := &Env{g: g, st: st, old: st, vars: params, pkgPath: pkgPath}
			g.addCons(env.evalBool(c.E))
		}
		// cover: preconditions and axioms are jointly satisfiable
		if o := g.addOblig(st, "cover", "cover.pre", "false", "requires + axioms satisfiable"); o != nil {
			o.Expect = "sat"
		}
		exit, results := g.runBody(fr, args, bindings, st)
		if exit == nil {
			if !fc.NoReturn {
				g.errorf("%s: no reachable return", key)
			}
			return
		}
		if o := g.addOblig(exit, "cover", "cover.exit", "false", "some execution returns"); o != nil {
			o.Expect = "sat"
		}
		// postconditions
		post := map[string]*Value{}
		for k, v := range params {
			post[k] = v
		}
		sig := fn.Signature
		for i, r := range results {
			post[fmt.Sprintf("result%d", i)] = r
			if i < sig.Results().Len() {
				if n := sig.Results().At(i).Name(); n != "" && n != "_" {
					if _, clash := post[n]; !clash {
						post[n] = r
					}
				}
			}
		}
		if len(results) == 1 {
			post["result"] = results[0]
		}
		g.applyGhostSets(fc, exit, g.entry, post, pkgPath)
		// body_ensures: facts about the body that are proved even when the summary (ensures, frame) is only assumed
		for i, c := range fc.BodyEnsures {
			env := &Env{g: g, st: exit, old: g.entry, vars: post, pkgPath: pkgPath, fr: fr, inBody: true}
			t := env.evalBool(c.E)
			g.addOblig(exit, "post", "body."+clauseName(c, i), t, c.Src)
		}
		if fc.SafetyOnly {
			g.trusted["postconditions and frame of "+shortKey(key)+" (safety_only: only its own panics, callee preconditions and at-call assertions are proved against the body)"] = true
			return
		}
		for i, c := range fc.Ensures {
			env := &Env{g: g, st: exit, old: g.entry, vars: post, pkgPath: pkgPath, fr: fr, inBody: true}
			t := env.evalBool(c.E)
			g.addOblig(exit, "post", "post."+clauseName(c, i), t, c.Src)
		}
		for i, c := range fc.AssumedEnsures {
			g.trusted["assumed clause "+shortKey(key)+"#"+clauseName(c, i)+" (not proved against the body)"] = true
		}
		g.frameObligations(fc, exit, params, pkgPath)
	}()
	// aliases for scalar fields of struct-pointer inputs in the entry heap (so that models show them)
	if g.entry != nil {
		for _, p := range fn.Params {
			pt, ok := types.Unalias(p.Type()).Underlying().(*types.Pointer)
			if !ok {
				continue
			}
			if _, isStruct := types.Unalias(pt.Elem()).Underlying().(*types.Struct); !isStruct {
				continue
			}
			for _, l := range w.shapes.shape(pt.Elem()) {
				if l.Sort != sInt && l.Sort != sBool {
					continue
				}
				key := g.fieldCompKey(pt.Elem(), l.Path)
				name := "C." + sanitize(key) + "!0"
				if !g.declared[fmt.Sprintf("(declare-const %s %s)", name, arrSort(sInt, l.Sort))] {
					continue
				}
				alias := "in_" + sanitize(p.Name()+l.Path)
				res.Aliases = append(res.Aliases, [3]string{alias, l.Sort, smtSel(name, "in_" + sanitize(p.Name()))})
			}
		}
	}
	// vacuity: an at-call clause whose callee name matches no call site in the body proves nothing
	if len(res.Errs) == 0 && len(g.errs) == 0 {
		for name, cls := range fc.AtCall {
			for i, cl := range cls {
				ck := name + "." + clauseName(cl, i)
				if g.atSeen[ck] == 0 && g.atSkipped[ck] == 0 {
					g.errorf("at-call clause %s: no call to %s in the body of %s (renamed or removed callee?)", ck, name, shortKey(key))
				}
			}
		}
	}
	for _, ck := range sortedKeys(g.atSkipped) {
		if g.atSeen[ck] == 0 {
			g.errorf("at-call clause %s could not be evaluated at any of its call sites (unknown identifier?)", ck)
		} else {
			g.note(fmt.Sprintf("at-call clause %s does not apply to %d call site(s) where one of its locals does not exist", ck, g.atSkipped[ck]))
		}
	}
	res.exceptTerms = g.exceptTerms
	res.Obls = g.obls
	res.Errs = append(res.Errs, g.errs...)
	res.Notes = sortedKeys(g.notes)
	res.Trusted = sortedKeys(g.trusted)
	res.Inlined = sortedKeys(g.inlined)
	res.Decls = g.decls
	res.Cons = g.cons
	res.Axioms = append(append([]string{}, g.extraAxioms...), g.finalAxioms()...)
	res.GenMs = time.Since(t0).Milliseconds()
	return res
}

var debugPanics = false

// frameObligations: everything the function wrote must be covered by its modifies clause.
func (g *Gen) frameObligations(fc *FuncContract, exit *State, params map[string]*Value, pkgPath string) {
	// allowed targets
	saveW := g.wComps
	saveC := g.wCells
	g.wComps = map[string][]writeRec{}
	g.wCells = map[*ssa.Alloc]bool{}
	g.dry++
	scratch := g.entry.clone()
	allowAll := false
	for mi, m := range fc.Modifies {
		if id, ok := m.(*Ident); ok && (id.Name == "heap" || id.Name == "opaque_heap") {
			allowAll = true
			continue
		}
		env := &Env{g: g, st: g.entry, old: g.entry, vars: params, pkgPath: pkgPath}
		if err := g.havocTarget(env, scratch, m); err != nil {
			g.dry--
			g.errorf("modifies clause %q: %v", fc.ModifiesSrc[mi], err)
			g.dry++
		}
	}
	g.dry--
	allowed := g.wComps
	g.wComps, g.wCells = saveW, saveC
	if allowAll {
		return
	}
	for _, k := range sortedKeys(g.allWrites) {
		if _, ok := exit.comps[k]; !ok {
			continue
		}
		srt := g.compSort[k]
		exitT := g.compTerm(exit, k, srt)
		entryT := g.compTerm(g.entry, k, srt)
		if exitT == entryT {
			continue
		}
		if strings.HasPrefix(k, "CHN|") || strings.HasPrefix(k, "CHD|") {
			continue // channel traces are ghost observations, not memory
		}
		// every write went to an object allocated by this very function: nothing the caller can see changed
		onlyFresh := len(g.allWrites[k]) > 0
		for _, r := range g.allWrites[k] {
			if r.whole || !strings.HasPrefix(r.obj, "obj!") {
				onlyFresh = false
				break
			}
		}
		if onlyFresh {
			continue
		}
		whole := false
		var objs []string
		for _, r := range allowed[k] {
			if r.whole || r.obj == "" {
				whole = true
			} else {
				objs = append(objs, r.obj)
			}
		}
		if whole {
			continue
		}
		name := "frame[" + strings.ReplaceAll(k, "|", ":") + "]"
		if !strings.HasPrefix(srt, "(Array Int ") {
			g.addOblig(exit, "frame", name, smtEq(exitT, entryT), "not in modifies: "+k)
			continue
		}
		o := g.fresh("fo", sInt)
		hyp := []string{"(<= 1 " + o + ")", "(<= " + o + " alloc!0)"}
		if strings.HasPrefix(k, "G|") {
			hyp = nil // ghost maps are indexed by arbitrary keys, not by object ids
		}
		for _, a := range objs {
			hyp = append(hyp, "(not (= "+o+" "+a+"))")
		}
		g.addOblig(exit, "frame", name, smtImp(smtAnd(hyp...), smtEq(smtSel(exitT, o), smtSel(entryT, o))), "only the objects named in modifies change in "+k)
	}
}

// useLemma adds a (separately proved) lemma as an axiom.
func (g *Gen) useLemma(name string) {
	l, ok := g.W.C.Lemmas[name]
	if !ok {
		g.errorf("unknown lemma %s", name)
		return
	}
	if g.axiomsDone["lemma:"+name] {
		return
	}
	g.axiomsDone["lemma:"+name] = true
	t := g.lemmaFormula(l)
	if t != "" {
		g.specAxioms = append(g.specAxioms, t)
	}
}

// lemmaFormula translates a lemma with the heap universally quantified.
func (g *Gen) lemmaFormula(l *Lemma) string {
	sym := &symHeap{vars: map[string]string{}}
	symState := &State{cells: map[*ssa.Alloc][]string{}, comps: map[string]string{}, alloc: "0", reach: "true", iters: map[ssa.Value]string{}}
	g.symStack = append(g.symStack, sym)
	g.symStates = append(g.symStates, symState)
	env := &Env{g: g, st: symState, old: symState, vars: map[string]*Value{}, pkgPath: l.PkgPath}
	g.dryFacts++
	t := env.evalBool(l.E)
	g.dryFacts--
	g.symStack = g.symStack[:len(g.symStack)-1]
	g.symStates = g.symStates[:len(g.symStates)-1]
	hv := map[string]string{}
	for k, name := range sym.vars {
		if occursIn([]string{t}, name) {
			hv[k] = name
		}
	}
	g.heapAxioms = append(g.heapAxioms, heapAxiom{text: t, vars: hv})
	return ""
}

// verifyLemma proves a lemma: plain, or by induction on one of its outermost universally quantified variables.
func verifyLemma(w *World, name string) *FuncResult {
	t0 := time.Now()
	res := &FuncResult{Key: "lemma " + name, Short: "lemma." + name, InputDesc: map[string]string{}}
	l, ok := w.C.Lemmas[name]
	if !ok {
		res.Errs = append(res.Errs, "unknown lemma "+name)
		return res
	}
	g := newGen(w, nil, nil)
	g.short = "lemma." + name
	func() {
		defer func() {
			if r := recover(); r != nil {
				g.errorf("generator failure in lemma %s: %v", name, r)
				if debugPanics {
					panic(r)
				}
			}
		}()
		st := g.newEntryState()
		g.entry = st
		for _, u := range l.Uses {
			g.useLemma(u)
		}
		q, isQ := l.E.(*Quant)
		if l.Induction == "" || !isQ || !q.Forall {
			if l.Induction != "" {
				g.errorf("lemma %s: induction needs an outermost forall", name)
			}
			// heap is arbitrary: evaluate over the (unconstrained) initial components
			env := &Env{g: g, st: st, old: st, vars: map[string]*Value{}, pkgPath: l.PkgPath}
			g.dryFacts++
			t := env.evalBool(l.E)
			g.dryFacts--
			g.addOblig(st, "lemma", "lemma", t, l.Src)
			return
		}
		// induction on variable n (over n >= 0): skolemize the outer variables
		env := &Env{g: g, st: st, old: st, vars: map[string]*Value{}, pkgPath: l.PkgPath, bound: map[string]*Value{}}
		var indVar string
		var others []SParam
		for _, v := range q.Vars {
			if v.Name == l.Induction {
				indVar = v.Name
			} else {
				others = append(others, v)
			}
		}
		if indVar == "" {
			g.errorf("lemma %s: induction variable %s is not bound by the outermost forall", name, l.Induction)
			return
		}
		// P(n) := forall others :: body ; Q(n, sk) := body with the other variables replaced by fresh constants
		pOf := func(nTerm string) string {
			sub := env.sub()
			sub.bound = map[string]*Value{indVar: mathVal(nTerm)}
			var body Expr = q.Body
			if len(others) > 0 {
				body = &Quant{Forall: true, Vars: others, Trig: q.Trig, Body: q.Body}
			}
			g.dryFacts++
			defer func() { g.dryFacts-- }()
			return sub.evalBool(body)
		}
		sk := map[string]*Value{}
		var skGuards []string
		for _, o := range others {
			t, err := g.W.lookupType(o.T, l.PkgPath)
			if err != nil {
				g.errorf("lemma %s: %v", name, err)
				return
			}
			val := g.freshValue(st, "sk."+o.Name, t)
			if o.T.Kind == "name" && (o.T.Name == "int" || o.T.Name == "mathint") {
				val = mathVal(g.fresh("sk."+o.Name, sInt))
			}
			sk[o.Name] = val
		}
		_ = skGuards
		qOf := func(nTerm string) string {
			sub := env.sub()
			sub.bound = map[string]*Value{indVar: mathVal(nTerm)}
			for k, v := range sk {
				sub.bound[k] = v
			}
			g.dryFacts++
			defer func() { g.dryFacts-- }()
			return sub.evalBool(q.Body)
		}
		g.addOblig(st, "lemma", "lemma.base", qOf("0"), l.Src+"  [n = 0]")
		// negative n: lemma bodies are expected to guard n >= 0 themselves; checked here too
		k := g.fresh("neg", sInt)
		negSt := st.clone()
		g.addOblig(negSt, "lemma", "lemma.neg", smtImp("(< "+k+" 0)", qOf(k)), l.Src+"  [n < 0]")
		n := g.fresh("n", sInt)
		stepSt := st.clone()
		g.addCons("(>= " + n + " 0)")
		// induction hypothesis: the instance at n for the same other variables, and P(m) for all 0 <= m <= n
		g.addCons(qOf(n))
		m := g.freshName("m")
		g.addCons(fmt.Sprintf("(forall ((%s Int)) (=> (and (<= 0 %s) (<= %s %s)) %s))", m, m, m, n, pOf(m)))
		g.addOblig(stepSt, "lemma", "lemma.step", qOf("(+ "+n+" 1)"), l.Src+"  [n -> n+1]")
	}()
	res.Obls = g.obls
	res.Errs = append(res.Errs, g.errs...)
	res.Notes = sortedKeys(g.notes)
	res.Decls = g.decls
	res.Cons = g.cons
	res.Axioms = append(append([]string{}, g.extraAxioms...), g.finalAxioms()...)
	res.GenMs = time.Since(t0).Milliseconds()
	return res
}

// namedLocals: the function's named local variables (naive-form allocs carrying a source name), by position.
func namedLocals(fn *ssa.Function) []*ssa.Alloc {
	var out []*ssa.Alloc
	for _, b := range fn.Blocks {
		for _, in := range b.Instrs {
			if a, ok := in.(*ssa.Alloc); ok && a.Comment != "" && a.Pos().IsValid() {
				out = append(out, a)
			}
		}
	}
	for _, a := range fn.Locals {
		if a.Comment != "" && a.Pos().IsValid() {
			dup := false
			for _, o := range out {
				if o == a {
					dup = true
				}
			}
			if !dup {
				out = append(out, a)
			}
		}
	}
	sort.Slice(out, func(i, j int) bool { return out[i].Pos() < out[j].Pos() })
	return out
}
