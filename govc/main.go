package main

import (
	"fmt"
	_ "golang.org/x/tools/go/packages"
	_ "golang.org/x/tools/go/ssa"
	_ "golang.org/x/tools/go/ssa/ssautil"
)

func main() { fmt.Println("ok") }
