package main

import (
	"fmt"
	"os"
	"sort"
	"strings"
)

func usage() {
	fmt.Fprintln(os.Stderr, `usage:
  govc dump <pkgpattern> <funcname>          print naive-form SSA
  govc vc <pkgpatterns,comma> <funckey|lemma:name>...   generate and discharge obligations of functions (development)
  govc check <propfile.json> [quick|thorough]  run a property check
  govc names <propfile.json>...              give the contract headers positional parameter names and locals lines`)
	os.Exit(2)
}

func main() {
	if len(os.Args) < 2 {
		usage()
	}
	switch os.Args[1] {
	case "dump":
		cmdDump(os.Args[2], os.Args[3])
	case "vc":
		cmdVC(os.Args[2], os.Args[3:])
	case "names":
		cmdNames(os.Args[2:])
	case "check":
		tier := "quick"
		if len(os.Args) > 3 {
			tier = os.Args[3]
		}
		os.Exit(cmdCheck(os.Args[2], tier))
	default:
		usage()
	}
}

func repoDir() string {
	if d := os.Getenv("GOVC_REPO"); d != "" {
		return d
	}
	return "/repo"
}
func libDir() string {
	if d := os.Getenv("GOVC_LIB"); d != "" {
		return d
	}
	return "/verif/contracts/lib"
}

func cmdDump(pat, name string) {
	w, err := loadWorld(repoDir(), libDir(), strings.Split(pat, ","), nil)
	if err != nil {
		fmt.Fprintln(os.Stderr, err)
		os.Exit(1)
	}
	for _, k := range w.funcKeys() {
		fn := w.funcs[k]
		if fn.Name() == name || k == name || shortKey(k) == name {
			fmt.Println("# key:", shortKey(k))
			fn.WriteTo(os.Stdout)
		}
	}
}

func cmdVC(pat string, keys []string) {
	debugPanics = os.Getenv("GOVC_DEBUG") != ""
	w, err := loadWorld(repoDir(), libDir(), strings.Split(pat, ","), nil)
	if err != nil {
		fmt.Fprintln(os.Stderr, err)
		os.Exit(1)
	}
	fmt.Printf("loaded in %v\n", w.LoadTime)
	dir := os.Getenv("GOVC_OUT")
	if dir == "" {
		dir = "/var/tmp/govc_vc"
	}
	os.MkdirAll(dir, 0755)
	var frs []*FuncResult
	for _, k := range keys {
		if strings.HasPrefix(k, "lemma:") {
			frs = append(frs, verifyLemma(w, k[6:]))
		} else {
			frs = append(frs, verifyFunc(w, expandKey(k)))
		}
	}
	solveAll(dir, frs, 10, os.Getenv("GOVC_ALL") != "", 8)
	bad := 0
	for _, fr := range frs {
		fmt.Printf("== %s  (gen %d ms, %d obligations)\n", fr.Short, fr.GenMs, len(fr.Obls))
		for _, e := range fr.Errs {
			fmt.Println("   ERROR:", e)
			bad++
		}
		sort.SliceStable(fr.Obls, func(i, j int) bool { return false })
		for _, o := range fr.Obls {
			mark := "ok "
			if !o.ok() {
				mark = "FAIL"
				bad++
			}
			fmt.Printf("   %s %-70s %s by %s in %d ms (expect %s)\n", mark, o.Name, o.Result, o.Solver, o.Ms, o.Expect)
			if !o.ok() {
				fmt.Printf("        src: %s\n        file: %s\n", o.Src, o.File)
				if o.Model != "" {
					fmt.Printf("        model: %s\n", strings.ReplaceAll(o.Model, "\n", " "))
				} else if o.Output != "" {
					out := firstLines(o.Output, 4)
					if len(out) > 400 {
						out = out[:400]
					}
					fmt.Printf("        out: %s\n", out)
				}
			}
		}
		if len(fr.Notes) > 0 {
			fmt.Println("   notes:", strings.Join(fr.Notes, "; "))
		}
		if len(fr.Trusted) > 0 {
			fmt.Println("   trusted:", strings.Join(fr.Trusted, ", "))
		}
		if len(fr.Inlined) > 0 {
			fmt.Println("   inlined:", strings.Join(fr.Inlined, ", "))
		}
	}
	if bad > 0 {
		os.Exit(1)
	}
}
