package main

// govc names <propfile.json>...: rewrites the contract headers of the repository's functions so that they carry
// positional names - "(recv *T) name(p1, p2)" - and adds a "locals" line naming, by position, the local variables
// the contract's clauses mention. With these a contract keeps working when the code renames a receiver, a
// parameter or a local (a harmless edit must not make a check fail).

import (
	"encoding/json"
	"fmt"
	"os"
	"regexp"
	"sort"
	"strconv"
	"strings"
)

var identRe = regexp.MustCompile(`(^|[^\w.])([A-Za-z_]\w*)`)

func cmdNames(propFiles []string) {
	type edit struct {
		header string
		locals string
	}
	edits := map[string]map[int]edit{} // file -> line (1-based) -> edit
	for _, pfn := range propFiles {
		data, err := os.ReadFile(pfn)
		if err != nil {
			fmt.Fprintln(os.Stderr, err)
			os.Exit(2)
		}
		var pf struct {
			Packages []string `json:"packages"`
		}
		json.Unmarshal(data, &pf)
		w, err := loadWorld(repoDir(), libDir(), pf.Packages, nil)
		if err != nil {
			fmt.Fprintln(os.Stderr, pfn, err)
			os.Exit(2)
		}
		for key, fc := range w.C.Funcs {
			if fc.IsLib || fc.Invoke || strings.Contains(key, "$") {
				continue
			}
			fn := w.findFunc(key)
			if fn == nil || len(fn.Blocks) == 0 {
				continue
			}
			i := strings.LastIndex(fc.Where, ":")
			file := fc.Where[:i]
			line, _ := strconv.Atoi(fc.Where[i+1:])
			if !strings.HasPrefix(file, repoDir()) {
				continue
			}
			// header
			var recv string
			var ps []string
			for k, p := range fn.Params {
				if k == 0 && fn.Signature.Recv() != nil {
					recv = p.Name()
					continue
				}
				ps = append(ps, p.Name())
			}
			// locals mentioned by the clauses
			var srcs []string
			for _, c := range fc.Requires {
				srcs = append(srcs, c.Src)
			}
			for _, c := range fc.Ensures {
				srcs = append(srcs, c.Src)
			}
			for _, c := range fc.AssumedEnsures {
				srcs = append(srcs, c.Src)
			}
			for _, cs := range fc.LoopInvs {
				for _, c := range cs {
					srcs = append(srcs, c.Src)
				}
			}
			for _, cs := range fc.AtCall {
				for _, c := range cs {
					srcs = append(srcs, c.Src)
				}
			}
			srcs = append(srcs, fc.StableSrc...)
			srcs = append(srcs, fc.ModifiesSrc...)
			mentioned := map[string]bool{}
			for _, s := range srcs {
				for _, m := range identRe.FindAllStringSubmatch(s, -1) {
					mentioned[m[2]] = true
				}
			}
			named := namedLocals(fn)
			isParam := map[string]bool{}
			for _, p := range fn.Params {
				isParam[p.Name()] = true
			}
			var ls []string
			seen := map[string]bool{}
			for k, a := range named {
				if mentioned[a.Comment] && !isParam[a.Comment] && !seen[a.Comment] {
					seen[a.Comment] = true
					ls = append(ls, fmt.Sprintf("%s=%d", a.Comment, k))
				}
			}
			sort.Strings(ls)
			if edits[file] == nil {
				edits[file] = map[int]edit{}
			}
			edits[file][line] = edit{header: recv + "|" + strings.Join(ps, ", "), locals: strings.Join(ls, ", ")}
		}
	}
	hdrLine := regexp.MustCompile(`^(//@ func )(?:\(\s*(?:[A-Za-z_]\w*\s+)?(\*?[\w./\-]+)\s*\)\s*)?([\w./$\-]+)\s*(?:\(.*\))?\s*$`)
	for file, es := range edits {
		data, err := os.ReadFile(file)
		if err != nil {
			fmt.Fprintln(os.Stderr, err)
			continue
		}
		lines := strings.Split(string(data), "\n")
		var out []string
		for i := 0; i < len(lines); i++ {
			e, ok := es[i+1]
			if !ok {
				out = append(out, lines[i])
				continue
			}
			m := hdrLine.FindStringSubmatch(lines[i])
			if m == nil {
				fmt.Fprintf(os.Stderr, "%s:%d: header not recognised: %s\n", file, i+1, lines[i])
				out = append(out, lines[i])
				continue
			}
			parts := strings.SplitN(e.header, "|", 2)
			h := m[1]
			if m[2] != "" {
				h += "(" + parts[0] + " " + m[2] + ") "
			}
			h += m[3] + "(" + parts[1] + ")"
			out = append(out, h)
			// drop an existing locals line right after the header
			if i+1 < len(lines) && strings.HasPrefix(strings.TrimSpace(lines[i+1]), "//@   locals ") {
				i++
			}
			if e.locals != "" {
				out = append(out, "//@   locals "+e.locals)
			}
		}
		if err := os.WriteFile(file, []byte(strings.Join(out, "\n")), 0644); err != nil {
			fmt.Fprintln(os.Stderr, err)
		}
		fmt.Printf("%s: %d headers\n", file, len(es))
	}
}
