package main

// Gen: verification-condition generation context for one function under contract.

import (
	"fmt"
	"go/ast"
	"go/token"
	"go/types"
	"regexp"
	"sort"
	"strconv"
	"strings"

	"golang.org/x/tools/go/ssa"
)

type Oblig struct {
	Name   string
	Kind   string // post, inv-init, inv-step, pre, frame, safety, lemma, cover, typestate
	Func   string
	NCons  int
	NDecls int
	Reach  string
	Goal   string
	Expect string // "unsat" or "sat"
	Src    string
	Extra  []string
	// filled by the solver stage
	Result  string
	Solver  string
	Ms      int64
	Model   string
	Output  string
	File    string
	noSplit bool
}

type State struct {
	cells map[*ssa.Alloc][]string
	comps map[string]string
	alloc string
	reach string
	iters map[ssa.Value]string // visited-set of map iterators
}

func (s *State) clone() *State {
	n := &State{cells: make(map[*ssa.Alloc][]string, len(s.cells)), comps: make(map[string]string, len(s.comps)), alloc: s.alloc, reach: s.reach, iters: map[ssa.Value]string{}}
	for k, v := range s.cells {
		n.cells[k] = v // leaf slices are never mutated in place
	}
	for k, v := range s.comps {
		n.comps[k] = v
	}
	for k, v := range s.iters {
		n.iters[k] = v
	}
	return n
}

type writeRec struct {
	comp  string
	obj   string // "" = whole component
	whole bool
}

type Gen struct {
	alias map[string]string // the contract's name for a parameter or local -> the name the code uses now (positional binding)
	W                 *World
	fn                *ssa.Function
	fc                *FuncContract
	short             string
	decls             []string
	declared          map[string]bool
	cons              []string
	obls              []*Oblig
	nfresh            int
	compSort          map[string]string
	strs              map[string]string
	typeIDs           map[string]int
	entry             *State
	notes             map[string]bool
	trusted           map[string]bool
	inlined           map[string]bool
	errs              []string
	dry               int
	wCells            map[*ssa.Alloc]bool
	wComps            map[string][]writeRec
	wAlloc            bool
	rangeDone         map[string]bool
	safetyN           map[string]int
	siteN             map[string]int
	panicsNever       bool
	stdTagUsed        bool
	atSeen, atSkipped map[string]int
	addrTokens        map[string]*LValue
	tokenAlias        []string               // merged names standing for "this token or nil"
	bytesSeen         map[string][][2]string // object array -> ranges whose content identity was mentioned
	arrPrev           map[string]arrDelta    // object arrays produced by a range-limited write: the array before and the written range
	nonStdTags        map[int]bool
	entryParams       map[string]*Value
	extraAxioms       []string
	usedSpec          map[string]bool
	axiomsDone        map[string]bool
	globalsSeen       map[string]bool
	allWrites         map[string][]writeRec
	loopWatermark     int
	phiConds          map[*ssa.BasicBlock][]string
	havocAllLater     bool
	dryFacts          int
	specDepth         int
	specInfos         map[string]*specInfo
	symStack          []*symHeap
	symStates         []*State
	specAxioms        []string
	entryReach        string
	exceptTerms       map[string]string
	recDefs           []string
	pathIDs           map[string]int
	ownOnly           bool
	privBoxes         []*LValue
	stableKeys        map[string]bool
	useTwin           bool
	heapAxioms        []heapAxiom
	heapSigs          map[string]bool
	heapSnaps         []map[string]string
}

func newGen(w *World, fn *ssa.Function, fc *FuncContract) *Gen {
	g := &Gen{W: w, fn: fn, fc: fc, declared: map[string]bool{}, compSort: map[string]string{}, strs: map[string]string{}, typeIDs: map[string]int{},
		notes: map[string]bool{}, trusted: map[string]bool{}, inlined: map[string]bool{}, rangeDone: map[string]bool{}, safetyN: map[string]int{}, siteN: map[string]int{},
		phiConds: map[*ssa.BasicBlock][]string{}, usedSpec: map[string]bool{}, axiomsDone: map[string]bool{}, globalsSeen: map[string]bool{}, allWrites: map[string][]writeRec{}, arrPrev: map[string]arrDelta{}, bytesSeen: map[string][][2]string{}}
	if fn != nil {
		g.short = shortFuncName(fn)
	}
	g.decl("(declare-fun strlen (Int) Int)")
	g.decl("(declare-fun bytesval ((Array Int Int) Int Int) Int)")
	g.decl("(declare-fun implements (Int Int) Bool)")
	g.extraAxioms = append(g.extraAxioms, "(forall ((e (Array Int Int)) (f Int)) (! (= (bytesval e f 0) 0) :pattern ((bytesval e f 0))))")
	return g
}

func (g *Gen) errorf(format string, a ...interface{}) {
	msg := fmt.Sprintf(format, a...)
	for _, e := range g.errs {
		if e == msg {
			return
		}
	}
	g.errs = append(g.errs, msg)
}

func (g *Gen) note(s string) { g.notes[s] = true }

func (g *Gen) decl(d string) {
	if g.declared[d] {
		return
	}
	g.declared[d] = true
	g.decls = append(g.decls, d)
}

func (g *Gen) freshName(prefix string) string {
	g.nfresh++
	return fmt.Sprintf("%s!%d", sanitize(prefix), g.nfresh)
}

func (g *Gen) fresh(prefix, sort string) string {
	n := g.freshName(prefix)
	g.decl(fmt.Sprintf("(declare-const %s %s)", n, sort))
	return n
}

func (g *Gen) addCons(c string) {
	if g.dry > 0 || c == "true" || c == "" {
		return
	}
	g.cons = append(g.cons, c)
}

// assume adds a fact guarded by the reachability of the current point.
func (g *Gen) assume(st *State, c string) {
	g.addCons(smtImp(st.reach, c))
}

func (g *Gen) addOblig(st *State, kind, name, goal, src string) *Oblig {
	if g.dry > 0 {
		return nil
	}
	if goal == "true" {
		// trivially discharged by construction; still counted so that clause coverage is visible
	}
	full := g.short + "#" + name
	// uniquify
	base := full
	for n := 2; ; n++ {
		dup := false
		for _, o := range g.obls {
			if o.Name == full {
				dup = true
				break
			}
		}
		if !dup {
			break
		}
		full = fmt.Sprintf("%s~%d", base, n)
	}
	o := &Oblig{Name: full, Kind: kind, Func: g.short, NCons: len(g.cons), NDecls: len(g.decls), Reach: st.reach, Goal: goal, Expect: "unsat", Src: src}
	g.obls = append(g.obls, o)
	return o
}

// ---------------------------------------------------------------------------
// components

func (g *Gen) compTerm(st *State, key, sort string) string {
	if n := len(g.symStates); n > 0 && st == g.symStates[n-1] {
		sym := g.symStack[n-1]
		if old, ok := g.compSort[key]; ok && old != sort {
			panic(fmt.Sprintf("component %s used with sorts %s and %s", key, old, sort))
		}
		g.compSort[key] = sort
		if v, ok := sym.vars[key]; ok {
			return v
		}
		v := "H." + sanitize(key)
		sym.vars[key] = v
		return v
	}
	if t, ok := st.comps[key]; ok {
		return t
	}
	if old, ok := g.compSort[key]; ok && old != sort {
		panic(fmt.Sprintf("component %s used with sorts %s and %s", key, old, sort))
	}
	g.compSort[key] = sort
	name := "C." + sanitize(key) + "!0"
	g.decl(fmt.Sprintf("(declare-const %s %s)", name, sort))
	return name
}

func (g *Gen) setComp(st *State, key, sort, term string) {
	g.compSort[key] = sort
	st.comps[key] = term
}

func arrSort(idx, elem string) string { return "(Array " + idx + " " + elem + ")" }

func (g *Gen) fieldCompKey(root types.Type, leafPath string) string {
	return "F|" + typeKey(root) + "|" + leafPath
}
func (g *Gen) elemCompKey(elem types.Type, leafPath string) string {
	return "E|" + typeKey(elem) + "|" + leafPath
}
func (g *Gen) boxCompKey(t types.Type, leafPath string) string {
	return "B|" + typeKey(t) + "|" + leafPath
}

// arrayElemHeap reports whether boxed values of type t live in the element component (heap arrays).
func (g *Gen) arrayElemHeap(t types.Type) (types.Type, bool) {
	if a, ok := types.Unalias(t).Underlying().(*types.Array); ok {
		sh := g.W.shapes.shape(a.Elem())
		if len(sh) == 1 && g.W.shapes.shape(t)[0].Kind == "arr" {
			return a.Elem(), true
		}
	}
	return nil, false
}

func (g *Gen) logWrite(comp, obj string) {
	if g.dry > 0 {
		g.wComps[comp] = append(g.wComps[comp], writeRec{comp: comp, obj: obj, whole: obj == ""})
	}
	g.allWrites[comp] = append(g.allWrites[comp], writeRec{comp: comp, obj: obj, whole: obj == ""})
}

// readLeaf / writeLeaf access one leaf through an lvalue.
func (g *Gen) readLeaf(st *State, lv *LValue, leaf Leaf) string {
	path := lv.Path + leaf.Path
	var t string
	switch lv.Kind {
	case lvCell:
		cell := st.cells[lv.Cell]
		if cell == nil {
			// the variable is not declared yet on this path (only reachable through a closure that is
			// not armed here): any value
			return g.fresh("undef", leaf.Sort)
		}
		i := g.leafIndex(lv.Root, path)
		t = cell[i]
	case lvGlobal:
		key := "V|" + lv.Global + "|" + path
		t = g.compTerm(st, key, leaf.Sort)
	case lvHeap:
		key := g.fieldCompKey(lv.Root, path)
		t = smtSel(g.compTerm(st, key, arrSort(sInt, leaf.Sort)), lv.Obj)
	case lvBox:
		if _, ok := g.arrayElemHeap(lv.Root); ok && path == "" {
			key := g.elemCompKey(lv.Root.Underlying().(*types.Array).Elem(), "")
			es := g.W.shapes.shape(lv.Root.Underlying().(*types.Array).Elem())[0].Sort
			t = smtSel(g.compTerm(st, key, arrSort(sInt, arrSort(sInt, es))), lv.Obj)
		} else {
			key := g.boxCompKey(lv.Root, path)
			t = smtSel(g.compTerm(st, key, arrSort(sInt, leaf.Sort)), lv.Obj)
		}
	case lvElem:
		key := g.elemCompKey(lv.Root, path)
		t = smtSel(smtSel(g.compTerm(st, key, arrSort(sInt, arrSort(sInt, leaf.Sort))), lv.Obj), lv.Idx)
	}
	return t
}

func (g *Gen) writeLeaf(st *State, lv *LValue, leaf Leaf, val string) {
	path := lv.Path + leaf.Path
	switch lv.Kind {
	case lvCell:
		cell := st.cells[lv.Cell]
		if cell == nil {
			return // not declared on this path (see readLeaf)
		}
		i := g.leafIndex(lv.Root, path)
		nc := append([]string(nil), cell...)
		nc[i] = val
		st.cells[lv.Cell] = nc
		if g.dry > 0 {
			g.wCells[lv.Cell] = true
		}
	case lvGlobal:
		key := "V|" + lv.Global + "|" + path
		g.compTerm(st, key, leaf.Sort)
		g.setComp(st, key, leaf.Sort, val)
		g.logWrite(key, "")
	case lvHeap:
		key := g.fieldCompKey(lv.Root, path)
		srt := arrSort(sInt, leaf.Sort)
		g.setComp(st, key, srt, smtSto(g.compTerm(st, key, srt), lv.Obj, val))
		g.logWrite(key, lv.Obj)
	case lvBox:
		if _, ok := g.arrayElemHeap(lv.Root); ok && path == "" {
			et := lv.Root.Underlying().(*types.Array).Elem()
			key := g.elemCompKey(et, "")
			srt := arrSort(sInt, arrSort(sInt, g.W.shapes.shape(et)[0].Sort))
			g.setComp(st, key, srt, smtSto(g.compTerm(st, key, srt), lv.Obj, val))
			g.logWrite(key, lv.Obj)
		} else {
			key := g.boxCompKey(lv.Root, path)
			srt := arrSort(sInt, leaf.Sort)
			g.setComp(st, key, srt, smtSto(g.compTerm(st, key, srt), lv.Obj, val))
			g.logWrite(key, lv.Obj)
		}
	case lvElem:
		key := g.elemCompKey(lv.Root, path)
		srt := arrSort(sInt, arrSort(sInt, leaf.Sort))
		c := g.compTerm(st, key, srt)
		g.setComp(st, key, srt, smtSto(c, lv.Obj, smtSto(smtSel(c, lv.Obj), lv.Idx, val)))
		g.logWrite(key, lv.Obj)
		if len(g.bytesSeen) > 0 && leaf.Sort == sInt {
			g.bytesWrite(smtSel(c, lv.Obj), smtSto(smtSel(c, lv.Obj), lv.Idx, val), lv.Idx, "(+ "+lv.Idx+" 1)")
		}
	}
}

func (g *Gen) leafIndex(root types.Type, path string) int {
	for i, l := range g.W.shapes.shape(root) {
		if l.Path == path {
			return i
		}
	}
	panic(fmt.Sprintf("no leaf %q in %s", path, typeKey(root)))
}

// load reads the value of type lv.T at lv.
func (g *Gen) load(st *State, lv *LValue) *Value {
	sh := g.W.shapes.shape(lv.T)
	v := &Value{T: lv.T, L: make([]string, len(sh))}
	if lv.ArrIdx != "" {
		// element of an array-sorted leaf
		a, ok := types.Unalias(lv.T).Underlying().(*types.Array)
		if !ok {
			panic("ArrIdx on non-array")
		}
		arr := g.readLeaf(st, lv, sh[0])
		ev := &Value{T: a.Elem(), L: []string{smtSel(arr, lv.ArrIdx)}}
		g.facts(st, ev)
		return ev
	}
	for i, l := range sh {
		v.L[i] = g.readLeaf(st, lv, l)
	}
	if lv.Kind != lvCell {
		g.facts(st, v)
		g.allocBound(st, v)
	}
	return v
}

func (g *Gen) store(st *State, lv *LValue, v *Value) {
	sh := g.W.shapes.shape(lv.T)
	if lv.ArrIdx != "" {
		arr := g.readLeaf(st, lv, sh[0])
		g.writeLeaf(st, lv, sh[0], smtSto(arr, lv.ArrIdx, v.term()))
		return
	}
	if len(v.L) != len(sh) {
		g.errorf("store: value of type %s has %d leaves, target %s has %d", typeStr(v), len(v.L), typeKey(lv.T), len(sh))
		return
	}
	for i, l := range sh {
		g.writeLeaf(st, lv, l, v.L[i])
	}
}

// facts asserts type-range / well-formedness facts for the leaves of v (once per term).
func (g *Gen) facts(st *State, v *Value) {
	if v == nil || v.T == nil || g.dry > 0 || g.dryFacts > 0 {
		return
	}
	if v.Tup != nil {
		for _, e := range v.Tup {
			g.facts(st, e)
		}
		return
	}
	sh := g.W.shapes.shape(v.T)
	if len(sh) != len(v.L) {
		return
	}
	for i, l := range sh {
		t := v.L[i]
		if isLiteral(t) {
			continue
		}
		key := l.Kind + "|" + t
		if l.Kind == "int" {
			key += "|" + typeKey(l.T)
		}
		if g.rangeDone[key] {
			continue
		}
		switch l.Kind {
		case "int":
			if lo, hi, _, _, ok := intRange(l.T); ok {
				g.rangeDone[key] = true
				g.addCons(fmt.Sprintf("(and (<= %s %s) (<= %s %s))", lo, t, t, hi))
			}
		case "ref", "obj", "val":
			if l.Kind == "ref" && mayBeInterior(l.T) {
				continue // may hold the address of a field (encoded as a negative number)
			}
			g.rangeDone[key] = true
			g.addCons(fmt.Sprintf("(<= 0 %s)", t))
		case "str":
			g.rangeDone[key] = true
			g.addCons(fmt.Sprintf("(and (<= 0 %s) (<= 0 (strlen %s)))", t, t))
		case "len":
			g.rangeDone[key] = true
			// slice: obj off len cap are leaves i-2..i+1
			obj, off, ln, cp := v.L[i-2], v.L[i-1], v.L[i], v.L[i+1]
			g.addCons(fmt.Sprintf("(and (<= 0 %s) (<= 0 %s) (<= %s %s) (<= (+ %s %s) %s) (=> (= %s 0) (= %s 0)))", off, ln, ln, cp, off, cp, maxSliceLen, obj, cp))
		case "tag":
			g.rangeDone[key] = true
			g.addCons(fmt.Sprintf("(and (<= 0 %s) (=> (= %s 0) (= %s 0)))", t, t, v.L[i+1]))
		}
	}
}

// maxSliceLen: no slice has 2^50 or more elements (assumption about the address space, listed).
const maxSliceLen = "1125899906842624"

var literalRe = regexp.MustCompile(`^(\(- \d+\)|\d+|true|false)$`)

func isLiteral(t string) bool { return literalRe.MatchString(t) }

func (g *Gen) zeroValue(t types.Type) *Value {
	sh := g.W.shapes.shape(t)
	v := &Value{T: t, L: make([]string, len(sh))}
	for i, l := range sh {
		v.L[i] = zeroTerm(l.Sort)
	}
	return v
}

func (g *Gen) freshValue(st *State, prefix string, t types.Type) *Value {
	if tup, ok := t.(*types.Tuple); ok {
		v := &Value{T: t}
		for i := 0; i < tup.Len(); i++ {
			v.Tup = append(v.Tup, g.freshValue(st, fmt.Sprintf("%s.%d", prefix, i), tup.At(i).Type()))
		}
		return v
	}
	sh := g.W.shapes.shape(t)
	v := &Value{T: t, L: make([]string, len(sh))}
	for i, l := range sh {
		v.L[i] = g.fresh(prefix+l.Path, l.Sort)
	}
	g.facts(st, v)
	if st != nil {
		g.allocBound(st, v)
	}
	return v
}

// allocBound: references in v point to objects allocated so far.
func (g *Gen) allocBound(st *State, v *Value) {
	if g.dry > 0 || g.dryFacts > 0 || v.T == nil {
		return
	}
	sh := g.W.shapes.shape(v.T)
	if len(sh) != len(v.L) {
		return
	}
	for i, l := range sh {
		switch l.Kind {
		case "ref", "obj":
			if strings.HasPrefix(v.L[i], "?") {
				continue
			}
			// (interior addresses are negative, so the bound holds for them trivially)
			if !isLiteral(v.L[i]) {
				bound := st.alloc
				// a reference read from the entry heap at an object that existed at entry existed at entry itself
				if entryReachable(v.L[i]) {
					bound = "alloc!0"
				}
				g.addCons(fmt.Sprintf("(<= %s %s)", v.L[i], bound))
			}
		}
	}
}

func (g *Gen) newObject(st *State) string {
	o := g.fresh("obj", sInt)
	g.addCons(fmt.Sprintf("(= %s (+ %s 1))", o, st.alloc))
	st.alloc = o
	if g.dry > 0 {
		g.wAlloc = true
	}
	return o
}

// ---------------------------------------------------------------------------
// strings, type ids

func (g *Gen) strConst(s string) string {
	if s == "" {
		return "0"
	}
	if n, ok := g.strs[s]; ok {
		return n
	}
	n := fmt.Sprintf("str!%d", len(g.strs)+1)
	g.strs[s] = n
	g.decl(fmt.Sprintf("(declare-const %s Int)", n))
	// distinct positive ids with known length; ids are fixed numbers far from 0
	id := 1000 + len(g.strs)
	g.extraAxioms = append(g.extraAxioms, fmt.Sprintf("(= %s %d)", n, id), fmt.Sprintf("(= (strlen %s) %d)", n, len(s)))
	return n
}

func (g *Gen) typeID(t types.Type) string {
	k := typeKey(t)
	if id, ok := g.typeIDs[k]; ok {
		return strconv.Itoa(id)
	}
	id := len(g.typeIDs) + 1
	g.typeIDs[k] = id
	// types declared in a package with a dotted import path (the module and its dependencies) are not standard-library types
	b := types.Unalias(t)
	for {
		if p, ok := b.(*types.Pointer); ok {
			b = types.Unalias(p.Elem())
			continue
		}
		break
	}
	if n, ok := b.(*types.Named); ok && n.Obj().Pkg() != nil && strings.Contains(n.Obj().Pkg().Path(), ".") {
		if g.nonStdTags == nil {
			g.nonStdTags = map[int]bool{}
		}
		g.nonStdTags[id] = true
	}
	return strconv.Itoa(id)
}

// ---------------------------------------------------------------------------
// names

func shortFuncName(fn *ssa.Function) string {
	s := funcKey(fn)
	return strings.ReplaceAll(s, "github.com/lianxiangcloud/linkchain/", "")
}

func funcKey(fn *ssa.Function) string {
	if fn == nil {
		return "<nil>"
	}
	if o, ok := fn.Object().(*types.Func); ok && o != nil && fn.Synthetic == "" {
		return o.FullName()
	}
	if fn.Parent() != nil {
		// closure: parent's key + $n
		name := fn.Name()
		pk := funcKey(fn.Parent())
		if i := strings.LastIndex(name, "$"); i >= 0 {
			// name is like "outer$1" or "outer$1$2"
			pn := fn.Parent().Name()
			if strings.HasPrefix(name, pn) {
				return pk + name[len(pn):]
			}
		}
		return pk + "$" + name
	}
	return fn.String()
}

// exprText returns source text for values that have a DebugRef.
func exprTextMap(fn *ssa.Function) map[ssa.Value]string {
	m := map[ssa.Value]string{}
	for _, b := range fn.Blocks {
		for _, in := range b.Instrs {
			if d, ok := in.(*ssa.DebugRef); ok {
				if _, seen := m[d.X]; !seen {
					m[d.X] = types.ExprString(d.Expr)
				}
			}
		}
	}
	return m
}

func posOf(fset *token.FileSet, p token.Pos) string {
	if !p.IsValid() {
		return "?"
	}
	pp := fset.Position(p)
	return fmt.Sprintf("%s:%d", pp.Filename, pp.Line)
}

var _ = ast.Inspect
var _ = sort.Strings

// mayBeInterior: a pointer to a non-struct type may be the address of a struct field (&x.f) that was
// stored somewhere; such addresses are encoded as negative numbers, so no range is assumed for them.
func mayBeInterior(t types.Type) bool {
	if t == nil {
		return false
	}
	p, ok := types.Unalias(t).Underlying().(*types.Pointer)
	if !ok {
		return false
	}
	_, isStruct := types.Unalias(p.Elem()).Underlying().(*types.Struct)
	return !isStruct
}

// materialize turns a statically known field address into an integer identity: -(obj*4096 + path id).
// Loads through such a pointer in another function see an ordinary boxed value (the link between
// *(&x.f) and x.f is not modelled; noted).
func (g *Gen) materialize(v *Value) (*Value, bool) {
	if v.LV == nil || len(v.L) != 1 || !strings.HasPrefix(v.L[0], "?") {
		return v, true
	}
	lv := v.LV
	if (lv.Kind == lvHeap || lv.Kind == lvBox) && lv.ArrIdx == "" {
		if lv.Path == "" {
			return &Value{T: v.T, L: []string{lv.Obj}}, true
		}
		g.note("addresses of struct fields stored in memory are opaque identities (loads through them are not linked to the field)")
		return &Value{T: v.T, L: []string{fmt.Sprintf("(- 0 (+ (* %s 4096) %s))", lv.Obj, g.pathID(typeKey(lv.Root)+lv.Path))}}, true
	}
	if lv.Kind == lvElem && lv.ArrIdx == "" {
		// address of a slice/array element: an opaque non-nil token remembered with its descriptor; a later
		// dereference of a pointer term built from exactly one token (and nil) recovers the descriptor (lvOf)
		tok := g.fresh("addr", sInt)
		g.addCons(fmt.Sprintf("(< %s (- 4611686018427387904))", tok))
		if g.addrTokens == nil {
			g.addrTokens = map[string]*LValue{}
		}
		cp := *lv
		g.addrTokens[tok] = &cp
		return &Value{T: v.T, L: []string{tok}}, true
	}
	return v, false
}

var addrTokenRe = regexp.MustCompile(`addr![0-9]+`)

// tokenLV: the descriptor behind a pointer term that mentions exactly one address token.
func (g *Gen) tokenLV(t string) *LValue {
	if len(g.addrTokens) == 0 {
		return nil
	}
	for _, a := range g.tokenAlias {
		if t == a {
			cp := *g.addrTokens[a]
			cp.Ptr = t
			return &cp
		}
	}
	var found string
	for _, m := range addrTokenRe.FindAllString(t, -1) {
		if found != "" && m != found {
			return nil
		}
		found = m
	}
	lv, ok := g.addrTokens[found]
	if !ok {
		return nil
	}
	cp := *lv
	cp.Ptr = t
	return &cp
}

// entryReachable: the term is an input or a chain of reads from components that have not been written
// since entry (C.<key>!0), starting at an input: such a reference denotes an object that existed at entry.
func entryReachable(t string) bool {
	if strings.HasPrefix(t, "in_") && !strings.ContainsAny(t, " ()") {
		return true
	}
	if !strings.HasPrefix(t, "(select ") {
		return false
	}
	parts := splitSexp(t)
	if len(parts) != 3 {
		return false
	}
	arr, idx := parts[1], parts[2]
	if strings.HasPrefix(arr, "C.") && strings.HasSuffix(arr, "!0") && !strings.ContainsAny(arr, " ()") {
		return entryReachable(idx)
	}
	// two-level: (select (select C.E!0 obj) i)
	if strings.HasPrefix(arr, "(select ") {
		p2 := splitSexp(arr)
		if len(p2) == 3 && strings.HasPrefix(p2[1], "C.") && strings.HasSuffix(p2[1], "!0") && !strings.ContainsAny(p2[1], " ()") {
			return entryReachable(p2[2])
		}
	}
	return false
}
