package main

// Values, type shapes (how a Go type is split into SMT-sorted leaves), memory components.

import (
	"fmt"
	"go/types"
	"math/big"
	"sort"
	"strings"

	"golang.org/x/tools/go/ssa"
)

const (
	sBool = "Bool"
	sInt  = "Int"
	sArrI = "(Array Int Int)"
	sArrB = "(Array Int Bool)"
)

// Leaf is one SMT-sorted component of a Go value.
type Leaf struct {
	Path string     // ".f.g", "#len", ...
	Sort string     // SMT sort
	T    types.Type // Go type of the leaf (for range facts); nil for pseudo leaves
	Kind string     // int, bool, ref, str, opaque, arr, obj, off, len, cap, tag, val
}

const (
	lvCell = iota
	lvHeap
	lvElem
	lvGlobal
	lvBox
)

// LValue is a statically known address.
type LValue struct {
	Kind   int
	Cell   *ssa.Alloc
	Global string
	Obj    string     // object id term (heap, elem, box)
	Root   types.Type // struct type (heap), element type (elem), boxed type (box), cell/global type
	Idx    string     // element index term (elem)
	Path   string     // leaf path prefix inside Root
	T      types.Type // type of the pointee
	ArrIdx string     // non-empty: element ArrIdx of the array-sorted leaf at Path
	Ptr    string     // non-empty: the pointer term this address was recovered from (may be nil: the nil check is on it)
}

type FuncVal struct {
	Fn       *ssa.Function
	Bindings []*Value
}

// Value is a symbolic Go value: leaf terms aligned with shape(T).
type Value struct {
	T   types.Type
	L   []string
	LV  *LValue  // for pointers produced by Alloc/FieldAddr/IndexAddr
	Tup []*Value // tuples
	Fn  *FuncVal // statically known function value
	Dyn types.Type // interface values built by MakeInterface: the statically known dynamic type
	// unsigned integers assembled from bytes: only the low Bits bits can be set (0 = unknown), the low LowZ bits are zero
	Bits, LowZ int
	// spec-only kinds
	SetElem string // non-empty: this is a set value; L[0] is (Array <SetElem> Bool)
	MapVal  string // non-empty: this is a ghost map value; L[0] is (Array K <MapVal>)
	Math    bool   // mathematical integer (spec)
}

func (v *Value) term() string {
	if v == nil || len(v.L) != 1 {
		panic(fmt.Sprintf("term(): value of type %v has %d leaves", typeStr(v), len(v.L)))
	}
	return v.L[0]
}

func typeStr(v *Value) string {
	if v == nil {
		return "<nil value>"
	}
	if v.T == nil {
		return "<untyped>"
	}
	return v.T.String()
}

// ---------------------------------------------------------------------------
// type keys and shapes

func basicKindName(b *types.Basic) string {
	switch b.Kind() {
	case types.Bool, types.UntypedBool:
		return "bool"
	case types.Int:
		return "int"
	case types.Int8:
		return "int8"
	case types.Int16:
		return "int16"
	case types.Int32, types.UntypedRune:
		return "int32"
	case types.Int64:
		return "int64"
	case types.Uint:
		return "uint"
	case types.Uint8:
		return "uint8"
	case types.Uint16:
		return "uint16"
	case types.Uint32:
		return "uint32"
	case types.Uint64:
		return "uint64"
	case types.Uintptr:
		return "uintptr"
	case types.Float32:
		return "float32"
	case types.Float64, types.UntypedFloat:
		return "float64"
	case types.String, types.UntypedString:
		return "string"
	case types.UnsafePointer:
		return "unsafeptr"
	case types.UntypedInt:
		return "mathint"
	case types.UntypedNil:
		return "nil"
	}
	return b.Name()
}

func shortPkg(p *types.Package) string {
	if p == nil {
		return ""
	}
	path := p.Path()
	path = strings.TrimPrefix(path, "github.com/lianxiangcloud/linkchain/")
	return path
}

// typeKey is a canonical, stable name of a type (used in component names).
func typeKey(t types.Type) string {
	t = types.Unalias(t)
	switch u := t.(type) {
	case *types.Basic:
		return basicKindName(u)
	case *types.Named:
		o := u.Obj()
		if o.Pkg() == nil {
			return o.Name()
		}
		return shortPkg(o.Pkg()) + "." + o.Name()
	case *types.Pointer:
		return "*" + typeKey(u.Elem())
	case *types.Slice:
		return "[]" + typeKey(u.Elem())
	case *types.Array:
		return fmt.Sprintf("[%d]%s", u.Len(), typeKey(u.Elem()))
	case *types.Map:
		return "map[" + typeKey(u.Key()) + "]" + typeKey(u.Elem())
	case *types.Chan:
		return "chan " + typeKey(u.Elem())
	case *types.Struct:
		var fs []string
		for i := 0; i < u.NumFields(); i++ {
			fs = append(fs, u.Field(i).Name()+" "+typeKey(u.Field(i).Type()))
		}
		return "struct{" + strings.Join(fs, ";") + "}"
	case *types.Interface:
		if u.Empty() {
			return "any"
		}
		return "iface{" + fmt.Sprint(u.NumMethods()) + "}"
	case *types.Signature:
		return "func"
	case *types.Tuple:
		return "tuple"
	}
	return t.String()
}

func isIntType(t types.Type) bool {
	b, ok := types.Unalias(t).Underlying().(*types.Basic)
	return ok && b.Info()&types.IsInteger != 0
}
func isBoolType(t types.Type) bool {
	b, ok := types.Unalias(t).Underlying().(*types.Basic)
	return ok && b.Info()&types.IsBoolean != 0
}
func isStringType(t types.Type) bool {
	b, ok := types.Unalias(t).Underlying().(*types.Basic)
	return ok && b.Info()&types.IsString != 0
}
func isFloatType(t types.Type) bool {
	b, ok := types.Unalias(t).Underlying().(*types.Basic)
	return ok && b.Info()&(types.IsFloat|types.IsComplex) != 0
}

func intRange(t types.Type) (lo, hi, mod string, signed bool, ok bool) {
	b, isb := types.Unalias(t).Underlying().(*types.Basic)
	if !isb || b.Info()&types.IsInteger == 0 {
		return "", "", "", false, false
	}
	switch b.Kind() {
	case types.Int, types.Int64:
		return "(- 9223372036854775808)", "9223372036854775807", "18446744073709551616", true, true
	case types.Uint, types.Uint64, types.Uintptr:
		return "0", "18446744073709551615", "18446744073709551616", false, true
	case types.Int32, types.UntypedRune:
		return "(- 2147483648)", "2147483647", "4294967296", true, true
	case types.Uint32:
		return "0", "4294967295", "4294967296", false, true
	case types.Int16:
		return "(- 32768)", "32767", "65536", true, true
	case types.Uint16:
		return "0", "65535", "65536", false, true
	case types.Int8:
		return "(- 128)", "127", "256", true, true
	case types.Uint8:
		return "0", "255", "256", false, true
	}
	return "", "", "", false, false
}

type shapeCache struct {
	m      map[string][]Leaf
	opaque map[string]bool
}

func newShapeCache(opaque map[string]bool) *shapeCache {
	return &shapeCache{m: map[string][]Leaf{}, opaque: opaque}
}

func leafSortOfSingle(t types.Type) (string, string, bool) {
	t = types.Unalias(t)
	switch u := t.Underlying().(type) {
	case *types.Basic:
		switch {
		case u.Info()&types.IsBoolean != 0:
			return sBool, "bool", true
		case u.Info()&types.IsInteger != 0:
			return sInt, "int", true
		case u.Info()&types.IsString != 0:
			return sInt, "str", true
		default:
			return sInt, "opaque", true
		}
	case *types.Pointer, *types.Map, *types.Chan, *types.Signature:
		return sInt, "ref", true
	}
	return "", "", false
}

func (sc *shapeCache) shape(t types.Type) []Leaf {
	key := typeKey(t)
	if s, ok := sc.m[key]; ok {
		return s
	}
	var out []Leaf
	tt := types.Unalias(t)
	if sc.opaque[key] {
		out = []Leaf{{"", sInt, t, "opaque"}}
		sc.m[key] = out
		return out
	}
	switch u := tt.Underlying().(type) {
	case *types.Basic, *types.Pointer, *types.Map, *types.Chan, *types.Signature:
		s, k, _ := leafSortOfSingle(tt)
		out = []Leaf{{"", s, t, k}}
	case *types.Slice:
		out = []Leaf{{"#obj", sInt, nil, "obj"}, {"#off", sInt, nil, "off"}, {"#len", sInt, nil, "len"}, {"#cap", sInt, nil, "cap"}}
	case *types.Interface:
		out = []Leaf{{"#tag", sInt, nil, "tag"}, {"#val", sInt, nil, "val"}}
	case *types.Array:
		es := sc.shape(u.Elem())
		if len(es) == 1 && es[0].Sort == sInt {
			out = []Leaf{{"", sArrI, t, "arr"}}
		} else if len(es) == 1 && es[0].Sort == sBool {
			out = []Leaf{{"", sArrB, t, "arr"}}
		} else {
			out = []Leaf{{"", sInt, t, "opaque"}}
		}
	case *types.Struct:
		for i := 0; i < u.NumFields(); i++ {
			f := u.Field(i)
			for _, l := range sc.shape(f.Type()) {
				out = append(out, Leaf{"." + f.Name() + l.Path, l.Sort, l.T, l.Kind})
			}
		}
		if len(out) == 0 {
			// empty struct: no leaves
		}
	case *types.Tuple:
		panic("shape of tuple")
	default:
		out = []Leaf{{"", sInt, t, "opaque"}}
	}
	sc.m[key] = out
	return out
}

// subShape returns the index range [start,end) of the leaves of t whose path starts with prefix.
func (sc *shapeCache) subRange(t types.Type, prefix string) (int, int) {
	sh := sc.shape(t)
	start, end := -1, -1
	for i, l := range sh {
		if l.Path == prefix || strings.HasPrefix(l.Path, prefix+".") || strings.HasPrefix(l.Path, prefix+"#") || prefix == "" {
			if start < 0 {
				start = i
			}
			end = i + 1
		}
	}
	if start < 0 {
		return 0, 0
	}
	return start, end
}

func zeroTerm(sort string) string {
	switch sort {
	case sBool:
		return "false"
	case sInt:
		return "0"
	case sArrI:
		return "((as const (Array Int Int)) 0)"
	case sArrB:
		return "((as const (Array Int Bool)) false)"
	}
	panic("zeroTerm " + sort)
}

// ---------------------------------------------------------------------------
// SMT term helpers

func smtAnd(xs ...string) string {
	var ys []string
	for _, x := range xs {
		if x == "true" || x == "" {
			continue
		}
		if x == "false" {
			return "false"
		}
		ys = append(ys, x)
	}
	switch len(ys) {
	case 0:
		return "true"
	case 1:
		return ys[0]
	}
	return "(and " + strings.Join(ys, " ") + ")"
}

func smtOr(xs ...string) string {
	var ys []string
	for _, x := range xs {
		if x == "false" || x == "" {
			continue
		}
		if x == "true" {
			return "true"
		}
		ys = append(ys, x)
	}
	switch len(ys) {
	case 0:
		return "false"
	case 1:
		return ys[0]
	}
	return "(or " + strings.Join(ys, " ") + ")"
}

func smtNot(x string) string {
	switch x {
	case "true":
		return "false"
	case "false":
		return "true"
	}
	if strings.HasPrefix(x, "(not ") && balanced(x[5:len(x)-1]) {
		return x[5 : len(x)-1]
	}
	return "(not " + x + ")"
}

func balanced(s string) bool {
	d := 0
	for i := 0; i < len(s); i++ {
		switch s[i] {
		case '(':
			d++
		case ')':
			d--
			if d < 0 {
				return false
			}
		}
	}
	return d == 0
}

func smtImp(a, b string) string {
	if a == "true" {
		return b
	}
	if a == "false" || b == "true" {
		return "true"
	}
	return "(=> " + a + " " + b + ")"
}

func smtEq(a, b string) string {
	if a == b {
		return "true"
	}
	return "(= " + a + " " + b + ")"
}

func smtIte(c, a, b string) string {
	if c == "true" {
		return a
	}
	if c == "false" {
		return b
	}
	if a == b {
		return a
	}
	return "(ite " + c + " " + a + " " + b + ")"
}

// smtSel builds (select a i), simplifying select-of-store with a syntactically identical index.
func smtSel(a, i string) string {
	if strings.HasPrefix(a, "(store ") {
		if parts := splitSexp(a); len(parts) == 4 && parts[2] == i {
			return parts[3]
		}
	}
	return "(select " + a + " " + i + ")"
}

// splitSexp splits "(f a b c)" into [f a b c] at the top level.
func splitSexp(s string) []string {
	if len(s) < 2 || s[0] != '(' || s[len(s)-1] != ')' {
		return nil
	}
	s = s[1 : len(s)-1]
	var out []string
	depth, start := 0, 0
	for i := 0; i < len(s); i++ {
		switch s[i] {
		case '(':
			depth++
		case ')':
			depth--
		case ' ':
			if depth == 0 {
				if i > start {
					out = append(out, s[start:i])
				}
				start = i + 1
			}
		}
	}
	if start < len(s) {
		out = append(out, s[start:])
	}
	return out
}
func smtSto(a, i, v string) string { return "(store " + a + " " + i + " " + v + ")" }

func smtNum(s string) string {
	if strings.HasPrefix(s, "-") {
		return "(- " + s[1:] + ")"
	}
	return s
}

func sanitize(x string) string {
	var sb strings.Builder
	for _, r := range x {
		switch {
		case r >= 'a' && r <= 'z', r >= 'A' && r <= 'Z', r >= '0' && r <= '9', r == '_', r == '.', r == '!', r == '$':
			sb.WriteRune(r)
		case r == '#':
			sb.WriteRune('@')
		case r == '*':
			sb.WriteString("p.")
		case r == '[':
			sb.WriteString("_")
		case r == ']':
			sb.WriteString("_")
		default:
			sb.WriteRune('_')
		}
	}
	return sb.String()
}

func sortedKeys[V any](m map[string]V) []string {
	var ks []string
	for k := range m {
		ks = append(ks, k)
	}
	sort.Strings(ks)
	return ks
}

func isByteType(t types.Type) bool {
	b, ok := types.Unalias(t).Underlying().(*types.Basic)
	return ok && (b.Kind() == types.Uint8)
}

// intBits: width of an integer type in bits (0 if not an integer type).
func intBits(t types.Type) int {
	b, isb := types.Unalias(t).Underlying().(*types.Basic)
	if !isb {
		return 0
	}
	switch b.Kind() {
	case types.Int, types.Int64, types.Uint, types.Uint64, types.Uintptr:
		return 64
	case types.Int32, types.Uint32, types.UntypedRune:
		return 32
	case types.Int16, types.Uint16:
		return 16
	case types.Int8, types.Uint8:
		return 8
	}
	return 0
}

// bigLE compares two decimal SMT integer literals ("(- n)" for negatives).
func bigLE(a, b string) bool {
	pa, pb := new(big.Int), new(big.Int)
	parse := func(s string, z *big.Int) bool {
		neg := false
		if strings.HasPrefix(s, "(- ") {
			neg = true
			s = strings.TrimSuffix(strings.TrimPrefix(s, "(- "), ")")
		}
		if _, ok := z.SetString(s, 10); !ok {
			return false
		}
		if neg {
			z.Neg(z)
		}
		return true
	}
	if !parse(a, pa) || !parse(b, pb) {
		return false
	}
	return pa.Cmp(pb) <= 0
}
