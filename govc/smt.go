package main

// SMT back ends: one query per obligation, raced on z3 5.1 (z3-new), z3 4.8.12 and cvc5.

import (
	"regexp"
	"bytes"
	"context"
	"fmt"
	"os"
	"os/exec"
	"path/filepath"
	"strings"
	"sync"
	"time"
)

type solverSpec struct {
	name string
	args func(file string, timeoutS int) []string
}

var solvers = []solverSpec{
	{"z3-new", func(f string, t int) []string { return []string{"z3-new", fmt.Sprintf("-T:%d", t), f} }},
	{"z3", func(f string, t int) []string { return []string{"z3", fmt.Sprintf("-T:%d", t), f} }},
	{"cvc5", func(f string, t int) []string {
		return []string{"cvc5", fmt.Sprintf("--tlimit=%d", t*1000), "--incremental", f}
	}},
}

var declFunRe = regexp.MustCompile(`^\(declare-fun (\S+) \(([^)]*\)?[^)]*)\)`)

// relevantAxioms keeps the axioms that share an uninterpreted function symbol with the obligation's
// text (transitively). Dropping an axiom only weakens the assumptions, so it can never turn a failing
// obligation into a passing one; it keeps queries small and lets the solvers produce models.
func relevantAxioms(fr *FuncResult, text string) []string {
	var funs []string
	for _, d := range fr.Decls {
		if strings.HasPrefix(d, "(declare-fun ") {
			f := strings.Fields(d[len("(declare-fun "):])[0]
			if !strings.HasSuffix(d, "() Int)") && !strings.HasSuffix(d, "() Bool)") {
				funs = append(funs, f)
			}
		}
	}
	symsOf := func(t string) map[string]bool {
		m := map[string]bool{}
		for _, f := range funs {
			if strings.Contains(t, "("+f+" ") {
				m[f] = true
			}
		}
		return m
	}
	have := symsOf(text)
	axSyms := make([]map[string]bool, len(fr.Axioms))
	for i, a := range fr.Axioms {
		axSyms[i] = symsOf(a)
	}
	used := make([]bool, len(fr.Axioms))
	for changed := true; changed; {
		changed = false
		for i := range fr.Axioms {
			if used[i] {
				continue
			}
			rel := len(axSyms[i]) == 0
			for f := range axSyms[i] {
				if have[f] {
					rel = true
				}
			}
			if rel {
				used[i] = true
				changed = true
				for f := range axSyms[i] {
					have[f] = true
				}
			}
		}
	}
	var out []string
	for i, a := range fr.Axioms {
		if used[i] {
			out = append(out, a)
		}
	}
	return out
}

// variant: 0 = all relevant axioms (the reference query), 1 = only axioms relevant to the goal itself,
// 2 = no spec axioms at all. Variants 1 and 2 assume less, so their unsat answers are just as valid.
func buildQuery(fr *FuncResult, o *Oblig, variant int) string {
	var sb strings.Builder
	sb.WriteString("(set-option :produce-models true)\n(set-logic ALL)\n")
	for _, d := range fr.Decls {
		sb.WriteString(d)
		sb.WriteByte('\n')
	}
	var tb strings.Builder
	for _, c := range fr.Cons[:o.NCons] {
		tb.WriteString(c)
		tb.WriteByte('\n')
	}
	for _, c := range o.Extra {
		tb.WriteString(c)
		tb.WriteByte('\n')
	}
	tb.WriteString(o.Reach + "\n" + o.Goal)
	switch variant {
	case 0:
		for _, a := range relevantAxioms(fr, tb.String()) {
			sb.WriteString("(assert " + a + ")\n")
		}
	case 1:
		for _, a := range relevantAxioms(fr, o.Goal) {
			sb.WriteString("(assert " + a + ")\n")
		}
	}
	// variants 2 and 3: no spec axioms
	for _, c := range fr.Cons[:o.NCons] {
		if variant == 3 && strings.Contains(c, "(forall ") {
			continue // variant 3: quantified hypotheses dropped as well (still only weakens the assumptions)
		}
		sb.WriteString("(assert " + c + ")\n")
	}
	for _, c := range o.Extra {
		sb.WriteString("(assert " + c + ")\n")
	}
	sb.WriteString("; obligation " + o.Name + " : " + strings.ReplaceAll(o.Src, "\n", " ") + "\n")
	sb.WriteString("(assert " + o.Reach + ")\n")
	sb.WriteString("(assert (not " + o.Goal + "))\n")
	names := append([]string{}, fr.Inputs...)
	for _, a := range fr.Aliases {
		sb.WriteString(fmt.Sprintf("(declare-const %s %s)\n(assert (= %s %s))\n", a[0], a[1], a[0], a[2]))
		names = append(names, a[0])
	}
	sb.WriteString("(check-sat)\n")
	if len(names) > 0 {
		sb.WriteString("(get-value (" + strings.Join(names, " ") + "))\n")
	}
	return sb.String()
}

type solveOut struct {
	solver string
	result string
	output string
	ms     int64
}

func runSolver(ctx context.Context, sp solverSpec, file string, timeoutS int) solveOut {
	t0 := time.Now()
	a := sp.args(file, timeoutS)
	cmd := exec.CommandContext(ctx, a[0], a[1:]...)
	var out bytes.Buffer
	cmd.Stdout = &out
	cmd.Stderr = &out
	cmd.Run()
	s := out.String()
	res := "unknown"
	for _, line := range strings.Split(s, "\n") {
		line = strings.TrimSpace(line)
		if line == "sat" || line == "unsat" || line == "timeout" || line == "unknown" {
			res = line
			break
		}
		if strings.HasPrefix(line, "(error") {
			break
		}
	}
	return solveOut{sp.name, res, s, time.Since(t0).Milliseconds()}
}

// solve races the solvers on one obligation.
func solve(dir string, fr *FuncResult, o *Oblig, timeoutS int, all bool) {
	q := buildQuery(fr, o, 0)
	file := filepath.Join(dir, sanitizeFile(o.Name)+".smt2")
	os.WriteFile(file, []byte(q), 0644)
	o.File = file
	if o.Goal == "true" && o.Expect == "unsat" {
		o.Result, o.Solver, o.Ms = "unsat", "trivial", 0
		return
	}
	if o.Expect == "sat" && timeoutS > 3 {
		timeoutS = 3
	}
	ctx, cancel := context.WithTimeout(context.Background(), time.Duration(timeoutS+2)*time.Second)
	defer cancel()
	type job struct {
		sp   solverSpec
		file string
		ref  bool // reference query: sat answers count
	}
	jobs := []job{}
	for _, sp := range solvers {
		jobs = append(jobs, job{sp, file, true})
	}
	if o.Expect == "unsat" {
		q3 := buildQuery(fr, o, 3)
		if q3 != q {
			f3 := filepath.Join(dir, sanitizeFile(o.Name)+".v3.smt2")
			os.WriteFile(f3, []byte(q3), 0644)
			jobs = append(jobs, job{solverSpec{"z3-new/quantifier-free-hyps", solvers[0].args}, f3, false})
		}
	}
	if o.Expect == "unsat" && len(fr.Axioms) > 0 {
		q1, q2 := buildQuery(fr, o, 1), buildQuery(fr, o, 2)
		if q1 != q {
			f1 := filepath.Join(dir, sanitizeFile(o.Name)+".v1.smt2")
			os.WriteFile(f1, []byte(q1), 0644)
			jobs = append(jobs, job{solverSpec{"z3-new/goal-axioms", solvers[0].args}, f1, false})
			jobs = append(jobs, job{solverSpec{"z3-new/goal-axioms/noauto", func(f string, t int) []string {
				return []string{"z3-new", fmt.Sprintf("-T:%d", t), "smt.auto_config=false", f}
			}}, f1, false})
		}
		if q2 != q1 {
			f2 := filepath.Join(dir, sanitizeFile(o.Name)+".v2.smt2")
			os.WriteFile(f2, []byte(q2), 0644)
			jobs = append(jobs, job{solverSpec{"z3-new/no-axioms", solvers[0].args}, f2, false})
		}
	}
	type jout struct {
		solveOut
		ref bool
	}
	ch := make(chan jout, len(jobs))
	for _, j := range jobs {
		j := j
		go func() { ch <- jout{runSolver(ctx, j.sp, j.file, timeoutS), j.ref} }()
	}
	var outs []jout
	for range jobs {
		r := <-ch
		if !r.ref && r.result != "unsat" {
			continue // weaker queries only count when they prove the goal
		}
		outs = append(outs, r)
		if !all && (r.result == "sat" || r.result == "unsat") {
			cancel()
			break
		}
	}
	// pick: a definite answer wins; disagreement is reported as unknown
	var def *jout
	disagree := false
	for i := range outs {
		r := &outs[i]
		if r.result == "sat" || r.result == "unsat" {
			if def == nil {
				def = r
			} else if def.result != r.result {
				disagree = true
			}
		}
	}
	switch {
	case disagree:
		o.Result, o.Solver = "unknown", "disagreement"
		for _, r := range outs {
			o.Output += fmt.Sprintf("[%s] %s\n", r.solver, r.output)
		}
	case def != nil:
		o.Result, o.Solver, o.Ms, o.Output = def.result, def.solver, def.ms, def.output
		if def.result == "sat" {
			if i := strings.Index(def.output, "sat\n"); i >= 0 {
				o.Model = strings.TrimSpace(def.output[i+4:])
			}
		}
	default:
		// a conjunctive goal that no solver decided as a whole: prove the conjuncts one by one (same hypotheses);
		// all of them proved = the goal proved. A conjunct that is not proved leaves the obligation undecided.
		if o.Expect == "unsat" && !o.noSplit {
			if parts := flattenAnd(o.Goal); len(parts) > 1 {
				allOK := true
				var ms int64
				for k, pt := range parts {
					sub := *o
					sub.Goal = pt
					sub.Name = fmt.Sprintf("%s~c%d", o.Name, k+1)
					sub.noSplit = false
					sub.Result, sub.Solver, sub.Output, sub.Model, sub.Ms = "", "", "", "", 0
					solve(dir, fr, &sub, timeoutS, all)
					ms += sub.Ms
					if sub.Result != "unsat" {
						allOK = false
						o.Output += fmt.Sprintf("[conjunct %d: %s] %s by %s\n%s", k+1, firstLines(pt, 1), sub.Result, sub.Solver, sub.Output)
						if sub.Result == "sat" {
							o.Result, o.Solver, o.Ms, o.Model = "sat", sub.Solver+"/conjunct", ms, sub.Model
							return
						}
						break
					}
				}
				if allOK {
					o.Result, o.Solver, o.Ms = "unsat", "conjuncts", ms
					return
				}
			}
		}
		o.Result, o.Solver = "unknown", "all"
		for _, r := range outs {
			o.Output += fmt.Sprintf("[%s] %s (%d ms): %s\n", r.solver, r.result, r.ms, firstLines(r.output, 3))
			if r.ms > o.Ms {
				o.Ms = r.ms
			}
		}
	}
}

func firstLines(s string, n int) string {
	ls := strings.Split(s, "\n")
	if len(ls) > n {
		ls = ls[:n]
	}
	return strings.Join(ls, " | ")
}

func sanitizeFile(s string) string {
	var sb strings.Builder
	for _, r := range s {
		switch {
		case r >= 'a' && r <= 'z', r >= 'A' && r <= 'Z', r >= '0' && r <= '9', r == '.', r == '-', r == '_':
			sb.WriteRune(r)
		default:
			sb.WriteRune('_')
		}
	}
	out := sb.String()
	if len(out) > 150 {
		out = out[:150]
	}
	return out
}

// solveAll discharges all obligations of the given results with a worker pool.
func solveAll(dir string, frs []*FuncResult, timeoutS int, all bool, workers int) {
	type job struct {
		fr *FuncResult
		o  *Oblig
	}
	var jobs []job
	for _, fr := range frs {
		for _, o := range fr.Obls {
			jobs = append(jobs, job{fr, o})
		}
	}
	var wg sync.WaitGroup
	ch := make(chan job)
	for i := 0; i < workers; i++ {
		wg.Add(1)
		go func() {
			defer wg.Done()
			for j := range ch {
				solve(dir, j.fr, j.o, timeoutS, all)
			}
		}()
	}
	for _, j := range jobs {
		ch <- j
	}
	close(ch)
	wg.Wait()
	// Second pass against load: an obligation nobody decided in the parallel pass is tried again on its own, with
	// three times the time (a machine busy with other checks must not turn a slow proof into an alarm). Listed known
	// findings are expected to stay undecided and are not retried; at most four obligations are retried per check.
	retried := 0
	for _, j := range jobs {
		if j.o.Expect != "unsat" || j.o.Result != "unknown" || (noRetry != nil && noRetry(j.o.Name)) || retried >= 4 {
			continue
		}
		retried++
		first := j.o.Output
		j.o.Result, j.o.Solver, j.o.Output, j.o.Model, j.o.Ms = "", "", "", "", 0
		solve(dir, j.fr, j.o, timeoutS*3, all)
		if j.o.Result != "unsat" {
			j.o.Output = first + "[second pass, alone, " + fmt.Sprint(timeoutS*3) + " s]\n" + j.o.Output
		} else {
			j.o.Solver += " (second pass)"
		}
	}
}

// noRetry: obligations that are expected to stay undecided (listed known findings), set by the check driver.
var noRetry func(name string) bool

func (o *Oblig) ok() bool {
	if o.Expect == "sat" {
		// vacuity guard ("assert false must not be provable"): anything but unsat passes
		return o.Result != "unsat"
	}
	return o.Result == o.Expect
}

// flattenAnd splits a goal term at its top-level conjunctions.
func flattenAnd(t string) []string {
	t = strings.TrimSpace(t)
	if !strings.HasPrefix(t, "(and ") {
		return []string{t}
	}
	parts := splitSexp(t)
	if len(parts) < 2 || parts[0] != "and" {
		return []string{t}
	}
	var out []string
	for _, p := range parts[1:] {
		out = append(out, flattenAnd(p)...)
	}
	return out
}
