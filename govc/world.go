package main

// World: loaded program (go/packages + go/ssa, naive form) and contracts.

import (
	"regexp"
	"fmt"
	"go/token"
	"go/types"
	"os"
	"path/filepath"
	"sort"
	"strings"
	"time"

	"golang.org/x/tools/go/packages"
	"golang.org/x/tools/go/ssa"
	"golang.org/x/tools/go/ssa/ssautil"
)

const modPath = "github.com/lianxiangcloud/linkchain"

type World struct {
	Prog      *ssa.Program
	Fset      *token.FileSet
	Pkgs      []*packages.Package
	SSAPkgs   map[string]*ssa.Package
	TypesPkgs map[string]*types.Package
	C         *Contracts
	shapes    *shapeCache
	funcs     map[string]*ssa.Function
	LoadTime  time.Duration
	RepoDir   string
	exprText  map[*ssa.Function]map[ssa.Value]string
	loopOrds  map[*ssa.Function]map[*ssa.BasicBlock]int
	autoInline map[string]bool
	Findings  map[string]Finding
	Aliases   map[string]map[string]string // package path -> import alias -> imported path
}

func loadWorld(repoDir, libDir string, patterns []string, overlay map[string][]byte) (*World, error) {
	t0 := time.Now()
	cfg := &packages.Config{
		Mode:    packages.NeedName | packages.NeedFiles | packages.NeedCompiledGoFiles | packages.NeedImports | packages.NeedDeps | packages.NeedTypes | packages.NeedSyntax | packages.NeedTypesInfo | packages.NeedTypesSizes | packages.NeedModule,
		Dir:     repoDir,
		Env:     append(os.Environ(), "GOFLAGS=-mod=mod", "GOPROXY=off", "GOSUMDB=off", "GOTOOLCHAIN=local"),
		Overlay: overlay,
	}
	pkgs, err := packages.Load(cfg, patterns...)
	if err != nil {
		return nil, err
	}
	var errs []string
	for _, p := range pkgs {
		for _, e := range p.Errors {
			errs = append(errs, e.Error())
		}
	}
	if len(errs) > 0 {
		return nil, fmt.Errorf("package load errors:\n  %s", strings.Join(errs, "\n  "))
	}
	prog, spkgs := ssautil.Packages(pkgs, ssa.NaiveForm|ssa.GlobalDebug)
	w := &World{Prog: prog, Pkgs: pkgs, SSAPkgs: map[string]*ssa.Package{}, TypesPkgs: map[string]*types.Package{}, funcs: map[string]*ssa.Function{}, RepoDir: repoDir,
		autoInline: map[string]bool{}, Findings: map[string]Finding{}, Aliases: map[string]map[string]string{}, exprText: map[*ssa.Function]map[ssa.Value]string{}, loopOrds: map[*ssa.Function]map[*ssa.BasicBlock]int{}}
	pkgDirs := map[string]string{}
	for i, sp := range spkgs {
		if sp == nil {
			continue
		}
		sp.Build()
		w.SSAPkgs[sp.Pkg.Path()] = sp
		if len(pkgs[i].GoFiles) > 0 {
			pkgDirs[sp.Pkg.Path()] = filepath.Dir(pkgs[i].GoFiles[0])
		}
		w.Fset = pkgs[i].Fset
	}
	for _, p := range prog.AllPackages() {
		w.TypesPkgs[p.Pkg.Path()] = p.Pkg
	}
	packages.Visit(pkgs, nil, func(p *packages.Package) {
		if !strings.HasPrefix(p.PkgPath, modPath) {
			return
		}
		m := map[string]string{}
		for _, f := range p.Syntax {
			for _, is := range f.Imports {
				path := strings.Trim(is.Path.Value, "\"")
				if is.Name != nil && is.Name.Name != "_" && is.Name.Name != "." {
					m[is.Name.Name] = path
				}
			}
		}
		w.Aliases[p.PkgPath] = m
	})
	// contract files of dependencies inside the module are loaded too (their contracts are used at call sites)
	packages.Visit(pkgs, nil, func(p *packages.Package) {
		if strings.HasPrefix(p.PkgPath, modPath) && len(p.GoFiles) > 0 {
			if _, ok := pkgDirs[p.PkgPath]; !ok {
				pkgDirs[p.PkgPath] = filepath.Dir(p.GoFiles[0])
			}
		}
	})
	w.C, err = loadContracts(libDir, pkgDirs)
	if err != nil {
		return nil, err
	}
	w.resolveContractKeys()
	w.shapes = newShapeCache(w.C.OpaqueTys)
	// index functions of the loaded packages (those with bodies)
	for _, sp := range w.SSAPkgs {
		for _, m := range sp.Members {
			switch m := m.(type) {
			case *ssa.Function:
				w.indexFunc(m)
			case *ssa.Type:
				for _, t := range []types.Type{m.Type(), types.NewPointer(m.Type())} {
					ms := prog.MethodSets.MethodSet(t)
					for i := 0; i < ms.Len(); i++ {
						if fn := prog.MethodValue(ms.At(i)); fn != nil && fn.Synthetic == "" {
							w.indexFunc(fn)
						}
					}
				}
			}
		}
	}
	w.LoadTime = time.Since(t0)
	return w, nil
}

func (w *World) indexFunc(fn *ssa.Function) {
	k := funcKey(fn)
	if _, ok := w.funcs[k]; ok {
		return
	}
	w.funcs[k] = fn
	for _, a := range fn.AnonFuncs {
		w.indexFunc(a)
	}
}

func (w *World) findFunc(key string) *ssa.Function { return w.funcs[key] }

func (w *World) funcKeys() []string {
	var ks []string
	for k := range w.funcs {
		ks = append(ks, k)
	}
	sort.Strings(ks)
	return ks
}

// lookupType resolves a spec type expression in the scope of package pkgPath.
func (w *World) lookupType(tx *TypeX, pkgPath string) (types.Type, error) {
	switch tx.Kind {
	case "ptr":
		e, err := w.lookupType(tx.Elem, pkgPath)
		if err != nil {
			return nil, err
		}
		return types.NewPointer(e), nil
	case "slice":
		e, err := w.lookupType(tx.Elem, pkgPath)
		if err != nil {
			return nil, err
		}
		return types.NewSlice(e), nil
	case "array":
		e, err := w.lookupType(tx.Elem, pkgPath)
		if err != nil {
			return nil, err
		}
		var n int64
		fmt.Sscan(tx.Len, &n)
		return types.NewArray(e, n), nil
	case "map":
		k, err := w.lookupType(tx.Key, pkgPath)
		if err != nil {
			return nil, err
		}
		e, err := w.lookupType(tx.Elem, pkgPath)
		if err != nil {
			return nil, err
		}
		return types.NewMap(k, e), nil
	case "name":
		name := tx.Name
		if name == "mathint" {
			return types.Typ[types.UntypedInt], nil
		}
		if o := types.Universe.Lookup(name); o != nil {
			if tn, ok := o.(*types.TypeName); ok {
				return tn.Type(), nil
			}
		}
		if i := strings.LastIndex(name, "."); i >= 0 {
			q, n := name[:i], name[i+1:]
			// q is an import name (or a full path)
			var cands []*types.Package
			if ap, ok := w.Aliases[pkgPath][q]; ok {
				if p, ok := w.TypesPkgs[ap]; ok {
					cands = append(cands, p)
				}
			}
			if p, ok := w.TypesPkgs[q]; ok {
				cands = append(cands, p)
			}
			if p, ok := w.TypesPkgs[modPath+"/"+q]; ok {
				cands = append(cands, p)
			}
			if self := w.TypesPkgs[pkgPath]; self != nil {
				for _, imp := range self.Imports() {
					if imp.Name() == q {
						cands = append(cands, imp)
					}
				}
			}
			for _, p := range w.TypesPkgs {
				if p.Name() == q {
					cands = append(cands, p)
				}
			}
			for _, p := range cands {
				if o := p.Scope().Lookup(n); o != nil {
					if tn, ok := o.(*types.TypeName); ok {
						return tn.Type(), nil
					}
				}
			}
			return nil, fmt.Errorf("type %s not found", name)
		}
		if self := w.TypesPkgs[pkgPath]; self != nil {
			if o := self.Scope().Lookup(name); o != nil {
				if tn, ok := o.(*types.TypeName); ok {
					return tn.Type(), nil
				}
			}
		}
		return nil, fmt.Errorf("type %s not found in %s", name, pkgPath)
	}
	return nil, fmt.Errorf("unsupported spec type %s", tx.String())
}

func (w *World) textOf(fn *ssa.Function) map[ssa.Value]string {
	if m, ok := w.exprText[fn]; ok {
		return m
	}
	m := exprTextMap(fn)
	w.exprText[fn] = m
	return m
}

var methKeyRe = regexp.MustCompile(`^\((\*?)([\w./\-]+)\.(\w+)\)\.(.+)$`)
var funcKeyRe = regexp.MustCompile(`^([\w./\-]+)\.([\w$]+)$`)

// resolveContractKeys rewrites keys written with an import name (crypto.PrivKey) to full package paths.
func (w *World) resolveContractKeys() {
	resolve := func(q, from string) string {
		if p, ok := w.Aliases[from][q]; ok {
			return p
		}
		if self := w.TypesPkgs[from]; self != nil && !strings.Contains(q, "/") {
			for _, imp := range self.Imports() {
				if imp.Name() == q {
					return imp.Path()
				}
			}
		}
		if _, ok := w.TypesPkgs[q]; ok {
			return q
		}
		if _, ok := w.TypesPkgs[modPath+"/"+q]; ok {
			return modPath + "/" + q
		}
		return q
	}
	for _, k := range sortedKeys(w.C.Funcs) {
		fc := w.C.Funcs[k]
		nk := k
		if m := methKeyRe.FindStringSubmatch(k); m != nil {
			nk = "(" + m[1] + resolve(m[2], fc.PkgPath) + "." + m[3] + ")." + m[4]
		} else if m := funcKeyRe.FindStringSubmatch(k); m != nil {
			nk = resolve(m[1], fc.PkgPath) + "." + m[2]
		}
		if nk != k {
			delete(w.C.Funcs, k)
			fc.Key = nk
			w.C.Funcs[nk] = fc
		}
	}
	for f, t := range w.C.FuncFields {
		if m := methKeyRe.FindStringSubmatch(t); m != nil {
			w.C.FuncFields[f] = "(" + m[1] + resolve(m[2], "") + "." + m[3] + ")." + m[4]
		}
	}
}
