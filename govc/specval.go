package main

// Evaluation of specification expressions to SMT terms over the symbolic state.

import (
	"fmt"
	"go/constant"
	"go/types"
	"strings"

	"golang.org/x/tools/go/ssa"
)

type Env struct {
	g            *Gen
	st           *State
	old          *State
	vars         map[string]*Value
	fr           *frame
	pkgPath      string
	inBody       bool // identifiers may denote the current value of local cells
	bound        map[string]*Value
	failed       bool
	quietErrs    *int   // non-nil: evaluation errors are counted here instead of being reported (clauses that may not be usable in this context)
	fuelFn       string // while translating this function's axioms: applications other than the trigger use the twin symbol
	fuelTrig     map[string]bool
	outerBinders string // placeholder for binders to be merged into the outermost forall
	outerUsed    bool
}

var mathInt = types.Typ[types.UntypedInt]

func mathVal(t string) *Value { return &Value{T: mathInt, L: []string{t}, Math: true} }
func boolVal(t string) *Value { return &Value{T: types.Typ[types.Bool], L: []string{t}} }
func (e *Env) sub() *Env {
	n := *e
	n.outerBinders = ""
	n.outerUsed = false
	return &n
}

func (e *Env) fail(format string, a ...interface{}) *Value {
	e.failed = true
	if e.quietErrs != nil {
		*e.quietErrs++
		return boolVal(e.g.fresh("specerr", sBool))
	}
	e.g.errorf("spec: "+format, a...)
	return boolVal(e.g.fresh("specerr", sBool))
}

func (e *Env) evalBool(x Expr) string {
	v := e.eval(x)
	if v == nil || len(v.L) != 1 || !isBoolType(v.T) {
		e.g.errorf("spec: expression %s is not boolean", exprString(x))
		return "true"
	}
	return v.L[0]
}

var specConsts = map[string]string{
	"MaxInt64": "9223372036854775807", "MinInt64": "(- 9223372036854775808)", "MaxUint64": "18446744073709551615",
	"MaxInt32": "2147483647", "MinInt32": "(- 2147483648)", "MaxUint32": "4294967295", "MaxInt": "9223372036854775807", "MinInt": "(- 9223372036854775808)",
	"MaxUint8": "255", "MaxUint16": "65535",
}

func (e *Env) lookupLocal(name string) *ssa.Alloc {
	if e.fr == nil {
		return nil
	}
	var best *ssa.Alloc
	for a := range e.st.cells {
		if a.Parent() == e.fr.fn && a.Comment == name {
			if best == nil || a.Pos() > best.Pos() {
				best = a
			}
		}
	}
	if best == nil && e.fr.fn == e.g.fn {
		if al, ok := e.g.alias[name]; ok && al != name {
			return e.lookupLocal(al) // the code renamed it: positional binding
		}
	}
	return best
}

// heapLocal: a local that lives on the heap (captured or address-taken), under the contract's or the code's name.
func (e *Env) heapLocal(name string) (*LValue, bool) {
	if e.fr == nil {
		return nil, false
	}
	if lv, ok := e.fr.heapLocals[name]; ok {
		return lv, true
	}
	if al, ok := e.g.alias[name]; ok && e.fr.fn == e.g.fn {
		lv, ok := e.fr.heapLocals[al]
		return lv, ok
	}
	return nil, false
}

func (e *Env) eval(x Expr) *Value {
	g := e.g
	switch n := x.(type) {
	case *IntLit:
		v, ok := constant.Val(constant.MakeFromLiteral(n.Val, 5 /*token.INT*/, 0)).(interface{ String() string })
		if ok {
			return mathVal(smtNum(v.String()))
		}
		c := constant.MakeFromLiteral(n.Val, 5, 0)
		return mathVal(smtNum(c.ExactString()))
	case *BoolLit:
		if n.Val {
			return boolVal("true")
		}
		return boolVal("false")
	case *StrLit:
		return &Value{T: types.Typ[types.String], L: []string{g.strConst(n.Val)}}
	case *NilLit:
		return &Value{T: types.Typ[types.UntypedNil]}
	case *Ident:
		return e.evalIdent(n.Name)
	case *Unary:
		v := e.eval(n.X)
		switch n.Op {
		case "!":
			return boolVal(smtNot(v.term()))
		case "-":
			return mathVal("(- " + v.term() + ")")
		}
	case *Binary:
		return e.evalBinary(n)
	case *Cond:
		c := e.evalBool(n.C)
		a, b := e.eval(n.A), e.eval(n.B)
		if isNilVal(a) && !isNilVal(b) {
			a = e.g.zeroValue(b.T)
		} else if isNilVal(b) && !isNilVal(a) {
			b = e.g.zeroValue(a.T)
		}
		if len(a.L) != len(b.L) {
			return e.fail("?: branches of different shape in %s", exprString(x))
		}
		r := &Value{T: a.T, L: make([]string, len(a.L)), Math: a.Math || b.Math}
		if a.Math || b.Math {
			r.T = mathInt
		}
		for i := range a.L {
			r.L[i] = smtIte(c, a.L[i], b.L[i])
		}
		return r
	case *Field:
		return e.evalField(n)
	case *Index:
		return e.evalIndex(n)
	case *Deref:
		p := e.eval(n.X)
		lv := g.lvOf(e.fr, e.st, p)
		return g.load(e.st, lv)
	case *Call:
		return e.evalCall(n)
	case *Quant:
		return e.evalQuant(n)
	case *TypeIs:
		v := e.eval(n.X)
		t, err := g.W.lookupType(n.T, e.pkgPath)
		if err != nil {
			// a type outside the loaded packages cannot be the dynamic type of a value built in them
			g.note("type test against " + n.T.String() + ", which is not among the loaded packages, is false")
			return boolVal("false")
		}
		if len(v.L) != 2 {
			return e.fail("'is' on non-interface %s", exprString(n.X))
		}
		return boolVal(smtEq(v.L[0], g.typeID(t)))
	case *Cast:
		v := e.eval(n.X)
		t, err := g.W.lookupType(n.T, e.pkgPath)
		if err != nil {
			return e.fail("%v", err)
		}
		if len(v.L) != 2 {
			return e.fail("cast on non-interface %s", exprString(n.X))
		}
		return g.unbox(e.st, v, t)
	case *SliceE:
		s := e.eval(n.X)
		if pt, ok := types.Unalias(s.T).Underlying().(*types.Pointer); ok && len(s.L) == 1 {
			// p[lo:hi] of a pointer to a boxed array: the slice over the pointee
			if arr, ok := types.Unalias(pt.Elem()).Underlying().(*types.Array); ok {
				if base := g.lvOf(e.fr, e.st, s); base != nil && base.Kind == lvBox && base.Path == "" {
					nn := fmt.Sprint(arr.Len())
					s = &Value{T: types.NewSlice(arr.Elem()), L: []string{base.Obj, "0", nn, nn}}
				}
			}
		}
		if len(s.L) != 4 {
			return e.fail("slice expression on non-slice %s", exprString(n.X))
		}
		lo, hi := "0", s.L[2]
		if n.Lo != nil {
			lo = e.eval(n.Lo).term()
		}
		if n.Hi != nil {
			hi = e.eval(n.Hi).term()
		}
		return &Value{T: s.T, L: []string{s.L[0], plus(s.L[1], lo), minus(hi, lo), minus(s.L[3], lo)}}
	}
	return e.fail("cannot evaluate %s", exprString(x))
}

func (e *Env) evalIdent(name string) *Value {
	g := e.g
	if v, ok := e.bound[name]; ok {
		return v
	}
	if al, ok := g.alias[name]; ok && (e.fr == nil || e.fr.fn == g.fn) {
		// the code renamed this parameter or local: the contract's name stands for the code's (positional binding)
		if _, inVars := e.vars[name]; !inVars && e.lookupLocal(name) == nil && (e.fr == nil || e.fr.params[name] == nil) {
			name = al
		}
	}
	if v, ok := e.vars[name]; ok {
		return v
	}
	if e.inBody {
		if a := e.lookupLocal(name); a != nil {
			t := a.Type().(*types.Pointer).Elem()
			return &Value{T: t, L: e.st.cells[a]}
		}
		if lv, ok := e.heapLocal(name); ok {
			return g.load(e.st, lv)
		}
	}
	if e.fr != nil {
		if v, ok := e.fr.params[name]; ok {
			return v
		}
	}
	if c, ok := specConsts[name]; ok {
		return mathVal(c)
	}
	if gv, ok := g.W.C.Ghosts[name]; ok {
		if gv.T.Kind == "map" {
			ks, vs, vt, err := e.ghostMapSorts(gv)
			if err != nil {
				return e.fail("%v", err)
			}
			return &Value{T: vt, L: []string{g.compTerm(e.st, "G|"+gv.Name+"|", arrSort(ks, vs))}, MapVal: vs}
		}
		if gv.T.Kind == "set" {
			et, err := g.W.lookupType(gv.T.Elem, gv.PkgPath)
			if err != nil {
				return e.fail("%v", err)
			}
			es := g.W.shapes.shape(et)
			if len(es) != 1 {
				return e.fail("ghost set %s: composite element type", name)
			}
			srt := arrSort(es[0].Sort, sBool)
			return &Value{T: et, L: []string{g.compTerm(e.st, "G|"+gv.Name+"|", srt)}, SetElem: es[0].Sort}
		}
		t, err := e.ghostType(gv)
		if err != nil {
			return e.fail("%v", err)
		}
		sh := g.W.shapes.shape(t)
		v := &Value{T: t, L: make([]string, len(sh))}
		for i, l := range sh {
			v.L[i] = g.compTerm(e.st, "G|"+gv.Name+"|"+l.Path, l.Sort)
		}
		return v
	}
	if p := g.W.TypesPkgs[e.pkgPath]; p != nil {
		if o := p.Scope().Lookup(name); o != nil {
			return e.objValue(o)
		}
	}
	return e.fail("unknown identifier %s (package %s)", name, e.pkgPath)
}

// ghostMapSorts: key sort, value sort and value type of a ghost map (both single-leaf).
func (e *Env) ghostMapSorts(gv *GhostVar) (string, string, types.Type, error) {
	g := e.g
	kt, err := g.W.lookupType(gv.T.Key, gv.PkgPath)
	if err != nil {
		return "", "", nil, err
	}
	vt, err := g.W.lookupType(gv.T.Elem, gv.PkgPath)
	if err != nil {
		return "", "", nil, err
	}
	ks, vs := g.W.shapes.shape(kt), g.W.shapes.shape(vt)
	if len(ks) != 1 || len(vs) != 1 {
		return "", "", nil, fmt.Errorf("ghost map %s: composite key or value type", gv.Name)
	}
	return ks[0].Sort, vs[0].Sort, vt, nil
}

func (e *Env) ghostType(gv *GhostVar) (types.Type, error) {
	return e.g.W.lookupType(gv.T, gv.PkgPath)
}

func (e *Env) objValue(o types.Object) *Value {
	g := e.g
	switch o := o.(type) {
	case *types.Const:
		switch o.Val().Kind() {
		case constant.Int:
			return &Value{T: o.Type(), L: []string{smtNum(o.Val().ExactString())}}
		case constant.Bool:
			return boolVal(fmt.Sprint(constant.BoolVal(o.Val())))
		case constant.String:
			return &Value{T: o.Type(), L: []string{g.strConst(constant.StringVal(o.Val()))}}
		}
	case *types.Var:
		name := strings.TrimPrefix(o.Pkg().Path()+"."+o.Name(), modPath+"/")
		g.globalFacts(e.st, name, o.Type())
		lv := &LValue{Kind: lvGlobal, Global: name, Root: o.Type(), T: o.Type()}
		return g.load(e.st, lv)
	}
	return e.fail("unsupported object %v in spec", o)
}

func (e *Env) findImport(name string) *types.Package {
	g := e.g
	if ap, ok := g.W.Aliases[e.pkgPath][name]; ok {
		if p, ok := g.W.TypesPkgs[ap]; ok {
			return p
		}
	}
	if self := g.W.TypesPkgs[e.pkgPath]; self != nil {
		for _, imp := range self.Imports() {
			if imp.Name() == name {
				return imp
			}
		}
	}
	return nil
}

func fieldPath(t types.Type, name string, pkg *types.Package) (path string, ft types.Type, viaPtr bool, ok bool) {
	obj, index, _ := types.LookupFieldOrMethod(t, true, pkg, name)
	v, isVar := obj.(*types.Var)
	if !isVar || v == nil {
		return "", nil, false, false
	}
	cur := t
	for _, idx := range index {
		if p, okp := types.Unalias(cur).Underlying().(*types.Pointer); okp {
			cur = p.Elem()
		}
		st, oks := types.Unalias(cur).Underlying().(*types.Struct)
		if !oks {
			return "", nil, false, false
		}
		f := st.Field(idx)
		path += "." + f.Name()
		cur = f.Type()
		if _, isPtr := types.Unalias(cur).Underlying().(*types.Pointer); isPtr && idx != index[len(index)-1] {
			return "", nil, true, false // promotion through embedded pointer: unsupported
		}
	}
	return path, cur, false, true
}

// evalAddr evaluates x as an address if it denotes memory; nil otherwise.
func (e *Env) evalAddr(x Expr) *LValue {
	g := e.g
	switch n := x.(type) {
	case *Ident:
		if _, ok := e.bound[n.Name]; ok {
			return nil
		}
		if _, ok := e.vars[n.Name]; ok {
			return nil
		}
		if e.inBody {
			if a := e.lookupLocal(n.Name); a != nil {
				t := a.Type().(*types.Pointer).Elem()
				return &LValue{Kind: lvCell, Cell: a, Root: t, T: t}
			}
			if lv, ok := e.heapLocal(n.Name); ok {
				return lv
			}
		}
		return nil
	case *Deref:
		p := e.eval(n.X)
		return g.lvOf(e.fr, e.st, p)
	case *Field:
		if id, ok := n.X.(*Ident); ok {
			if _, isVar := e.vars[id.Name]; !isVar && e.findImport(id.Name) != nil && e.lookupLocal(id.Name) == nil {
				return nil
			}
		}
		var base *LValue
		if b := e.evalAddr(n.X); b != nil {
			if _, isPtr := types.Unalias(b.T).Underlying().(*types.Pointer); isPtr {
				pv := g.load(e.st, b)
				base = g.lvOf(e.fr, e.st, pv)
			} else {
				base = b
			}
		} else {
			xv := e.eval(n.X)
			if xv.T == nil {
				return nil
			}
			if _, isPtr := types.Unalias(xv.T).Underlying().(*types.Pointer); !isPtr {
				return nil
			}
			base = g.lvOf(e.fr, e.st, xv)
		}
		pkg := g.W.TypesPkgs[e.pkgPath]
		obj, index, _ := types.LookupFieldOrMethod(base.T, true, pkg, n.Name)
		if _, isVar := obj.(*types.Var); !isVar {
			if nt, isNamed := types.Unalias(base.T).(*types.Named); isNamed && nt.Obj().Pkg() != nil {
				obj, index, _ = types.LookupFieldOrMethod(base.T, true, nt.Obj().Pkg(), n.Name)
			}
		}
		if _, isVar := obj.(*types.Var); !isVar {
			e.fail("no field %s in %s", n.Name, typeKey(base.T))
			return nil
		}
		cur := *base
		for _, idx := range index {
			// hop through an embedded pointer: load it and continue in the pointee
			if _, isPtr := types.Unalias(cur.T).Underlying().(*types.Pointer); isPtr {
				pv := g.load(e.st, &cur)
				cur = *g.lvOf(e.fr, e.st, pv)
			}
			st, oks := types.Unalias(cur.T).Underlying().(*types.Struct)
			if !oks {
				e.fail("field path of %s leaves struct types", n.Name)
				return nil
			}
			f := st.Field(idx)
			cur.Path += "." + f.Name()
			cur.T = f.Type()
		}
		return &cur
	case *Index:
		xv := e.eval(n.X)
		if xv.T == nil {
			return nil
		}
		switch u := types.Unalias(xv.T).Underlying().(type) {
		case *types.Slice:
			idx := e.eval(n.I).term()
			return &LValue{Kind: lvElem, Obj: xv.L[0], Idx: plus(xv.L[1], idx), Root: u.Elem(), T: u.Elem()}
		case *types.Array:
			if b := e.evalAddr(n.X); b != nil {
				nlv := *b
				nlv.ArrIdx = e.eval(n.I).term()
				return &nlv
			}
		}
		return nil
	}
	return nil
}

func (e *Env) evalLV(x Expr) (*LValue, error) {
	lv := e.evalAddr(x)
	if lv == nil {
		return nil, fmt.Errorf("%s does not denote memory", exprString(x))
	}
	return lv, nil
}

func (e *Env) evalField(n *Field) *Value {
	g := e.g
	// package-qualified name
	if id, ok := n.X.(*Ident); ok {
		_, isVar := e.vars[id.Name]
		_, isBound := e.bound[id.Name]
		if !isVar && !isBound && (e.fr == nil || e.fr.params[id.Name] == nil) && e.lookupLocal(id.Name) == nil {
			if imp := e.findImport(id.Name); imp != nil {
				if o := imp.Scope().Lookup(n.Name); o != nil {
					return e.objValue(o)
				}
				return e.fail("%s.%s not found", id.Name, n.Name)
			}
		}
	}
	if lv := e.evalAddr(n); lv != nil {
		v := g.load(e.st, lv)
		return v
	}
	if e.failed {
		return boolVal("true")
	}
	// projection from a struct value
	xv := e.eval(n.X)
	if xv.T == nil {
		return e.fail("field %s of untyped value", n.Name)
	}
	if _, ok := types.Unalias(xv.T).Underlying().(*types.Struct); ok {
		pkg := g.W.TypesPkgs[e.pkgPath]
		path, ft, _, ok := fieldPath(xv.T, n.Name, pkg)
		if !ok {
			if nt, isNamed := types.Unalias(xv.T).(*types.Named); isNamed && nt.Obj().Pkg() != nil {
				path, ft, _, ok = fieldPath(xv.T, n.Name, nt.Obj().Pkg())
			}
		}
		if !ok {
			return e.fail("no field %s in %s", n.Name, typeKey(xv.T))
		}
		s, en := g.W.shapes.subRange(xv.T, path)
		return &Value{T: ft, L: xv.L[s:en]}
	}
	return e.fail("cannot select %s from %s", n.Name, typeStr(xv))
}

func (e *Env) evalIndex(n *Index) *Value {
	g := e.g
	xv := e.eval(n.X)
	if xv.SetElem != "" {
		return boolVal(smtSel(xv.L[0], e.eval(n.I).term()))
	}
	if xv.MapVal != "" {
		r := &Value{T: xv.T, L: []string{smtSel(xv.L[0], e.eval(n.I).term())}}
		if isIntType(xv.T) && xv.MapVal == sInt {
			if b, ok := xv.T.(*types.Basic); ok && b.Kind() == types.UntypedInt {
				r.Math = true
			}
		}
		return r
	}
	if xv.T == nil {
		return e.fail("index of untyped value")
	}
	switch u := types.Unalias(xv.T).Underlying().(type) {
	case *types.Slice:
		idx := e.eval(n.I).term()
		lv := &LValue{Kind: lvElem, Obj: xv.L[0], Idx: plus(xv.L[1], idx), Root: u.Elem(), T: u.Elem()}
		return g.load(e.st, lv)
	case *types.Array:
		if len(xv.L) == 1 {
			v := &Value{T: u.Elem(), L: []string{smtSel(xv.L[0], e.eval(n.I).term())}}
			return v
		}
	case *types.Map:
		k := e.eval(n.I)
		v, _ := g.mapGet(e.st, xv, k.term())
		return v
	case *types.Basic:
		if isStringType(xv.T) {
			g.decl("(declare-fun strat (Int Int) Int)")
			return &Value{T: types.Typ[types.Uint8], L: []string{"(strat " + xv.term() + " " + e.eval(n.I).term() + ")"}}
		}
	}
	return e.fail("cannot index %s", typeStr(xv))
}

func isNilVal(v *Value) bool {
	b, ok := v.T.(*types.Basic)
	return ok && b.Kind() == types.UntypedNil
}

func (e *Env) equal(a, b *Value) string {
	if isNilVal(a) && isNilVal(b) {
		return "true"
	}
	if isNilVal(b) {
		a, b = b, a
	}
	if isNilVal(a) {
		if len(b.L) == 0 {
			return "true"
		}
		if b.LV != nil && strings.HasPrefix(b.L[0], "?") {
			return "false" // the address of a variable, field or element is never nil
		}
		return smtEq(b.L[0], "0")
	}
	if len(a.L) != len(b.L) {
		e.fail("comparison of values with different shapes (%s vs %s)", typeStr(a), typeStr(b))
		return "true"
	}
	var cs []string
	for i := range a.L {
		cs = append(cs, smtEq(a.L[i], b.L[i]))
	}
	return smtAnd(cs...)
}

func (e *Env) evalBinary(n *Binary) *Value {
	switch n.Op {
	case "&&":
		return boolVal(smtAnd(e.evalBool(n.X), e.evalBool(n.Y)))
	case "||":
		return boolVal(smtOr(e.evalBool(n.X), e.evalBool(n.Y)))
	case "==>":
		a := e.evalBool(n.X)
		if a == "false" {
			// vacuous (e.g. "x is T" for a type that is not part of the loaded packages): the consequent is not evaluated
			return boolVal("true")
		}
		return boolVal(smtImp(a, e.evalBool(n.Y)))
	case "<==>":
		return boolVal(smtEq(e.evalBool(n.X), e.evalBool(n.Y)))
	case "==":
		return boolVal(e.equal(e.eval(n.X), e.eval(n.Y)))
	case "!=":
		return boolVal(smtNot(e.equal(e.eval(n.X), e.eval(n.Y))))
	case "in":
		x := e.eval(n.X)
		s := e.eval(n.Y)
		if s.SetElem == "" {
			return e.fail("'in' needs a set on the right: %s", exprString(n.Y))
		}
		return boolVal(smtSel(s.L[0], x.term()))
	}
	a, b := e.eval(n.X), e.eval(n.Y)
	if a.SetElem != "" && b.SetElem != "" {
		return e.setOp(n.Op, a, b)
	}
	if len(a.L) != 1 || len(b.L) != 1 {
		return e.fail("operator %s on non-scalar operands in %s", n.Op, exprString(n))
	}
	x, y := a.L[0], b.L[0]
	if isStringType(a.T) && isStringType(b.T) {
		e.g.decl("(declare-fun strlt (Int Int) Bool)")
		e.g.decl("(declare-fun strcat (Int Int) Int)")
		switch n.Op {
		case "<":
			return boolVal("(strlt " + x + " " + y + ")")
		case ">":
			return boolVal("(strlt " + y + " " + x + ")")
		case "<=":
			return boolVal(smtNot("(strlt " + y + " " + x + ")"))
		case ">=":
			return boolVal(smtNot("(strlt " + x + " " + y + ")"))
		case "+":
			return &Value{T: a.T, L: []string{"(strcat " + x + " " + y + ")"}}
		}
	}
	switch n.Op {
	case "+", "-", "*":
		return mathVal("(" + n.Op + " " + x + " " + y + ")")
	case "/":
		return mathVal("(div " + x + " " + y + ")")
	case "%":
		return mathVal("(mod " + x + " " + y + ")")
	case "<", "<=", ">", ">=":
		return boolVal("(" + n.Op + " " + x + " " + y + ")")
	case "<<":
		if isLiteral(y) {
			var k int64
			fmt.Sscan(y, &k)
			return mathVal("(* " + x + " " + bigPow2(k, "") + ")")
		}
		e.g.decl("(declare-fun pow2 (Int) Int)")
		e.g.pow2Axioms()
		return mathVal("(* " + x + " (pow2 " + y + "))")
	case ">>":
		if isLiteral(y) {
			var k int64
			fmt.Sscan(y, &k)
			return mathVal("(div " + x + " " + bigPow2(k, "") + ")")
		}
		e.g.decl("(declare-fun pow2 (Int) Int)")
		e.g.pow2Axioms()
		return mathVal("(div " + x + " (pow2 " + y + "))")
	case "&", "|", "^":
		if n.Op == "&" {
			// exact for a constant single-bit mask (x & 2^k) and for a constant low mask (x & (2^k - 1))
			for _, pr := range [][2]string{{x, y}, {y, x}} {
				if isLiteral(pr[1]) {
					var m int64
					if _, err := fmt.Sscan(pr[1], &m); err == nil && m > 0 {
						if m&(m-1) == 0 {
							return mathVal(fmt.Sprintf("(* (mod (div %s %d) 2) %d)", pr[0], m, m))
						}
						if m&(m+1) == 0 {
							return mathVal(fmt.Sprintf("(mod %s %d)", pr[0], m+1))
						}
					}
				}
			}
		}
		name := map[string]string{"&": "bitand", "|": "bitor", "^": "bitxor"}[n.Op]
		e.g.decl(fmt.Sprintf("(declare-fun %s (Int Int) Int)", name))
		return mathVal("(" + name + " " + x + " " + y + ")")
	}
	return e.fail("unsupported operator %s", n.Op)
}

func (e *Env) setOp(op string, a, b *Value) *Value {
	x := e.g.fresh("x", a.SetElem)
	switch op {
	case "subset":
		return boolVal(fmt.Sprintf("(forall ((%s %s)) (=> (select %s %s) (select %s %s)))", x, a.SetElem, a.L[0], x, b.L[0], x))
	case "union", "minus", "intersect":
		// definitional: fresh set constrained pointwise
		r := e.g.fresh("set", arrSort(a.SetElem, sBool))
		var body string
		switch op {
		case "union":
			body = fmt.Sprintf("(or (select %s %s) (select %s %s))", a.L[0], x, b.L[0], x)
		case "minus":
			body = fmt.Sprintf("(and (select %s %s) (not (select %s %s)))", a.L[0], x, b.L[0], x)
		default:
			body = fmt.Sprintf("(and (select %s %s) (select %s %s))", a.L[0], x, b.L[0], x)
		}
		e.g.addCons(fmt.Sprintf("(forall ((%s %s)) (! (= (select %s %s) %s) :pattern ((select %s %s))))", x, a.SetElem, r, x, body, r, x))
		return &Value{T: a.T, L: []string{r}, SetElem: a.SetElem}
	}
	return e.fail("unsupported set operator %s", op)
}

func (e *Env) evalQuant(n *Quant) *Value {
	g := e.g
	sub := e.sub()
	sub.bound = map[string]*Value{}
	for k, v := range e.bound {
		sub.bound[k] = v
	}
	var decls []string
	var guards []string
	for _, v := range n.Vars {
		t, err := g.W.lookupType(v.T, e.pkgPath)
		if err != nil {
			return e.fail("quantifier variable %s: %v", v.Name, err)
		}
		sh := g.W.shapes.shape(t)
		base := g.freshName("q." + v.Name)
		val := &Value{T: t, L: make([]string, len(sh))}
		for i, l := range sh {
			name := base + sanitize(l.Path)
			decls = append(decls, fmt.Sprintf("(%s %s)", name, l.Sort))
			val.L[i] = name
		}
		for i, l := range sh {
			name := val.L[i]
			switch l.Kind {
			case "int":
				if lo, hi, _, _, ok := intRange(l.T); ok && !(v.T.Kind == "name" && (v.T.Name == "int" || v.T.Name == "mathint")) {
					guards = append(guards, fmt.Sprintf("(and (<= %s %s) (<= %s %s))", lo, name, name, hi))
				}
			case "ref", "obj", "val", "str":
				guards = append(guards, fmt.Sprintf("(<= 0 %s)", name))
			case "len":
				guards = append(guards, fmt.Sprintf("(and (<= 0 %s) (<= 0 %s) (<= %s %s) (<= %s %s))", val.L[i-1], name, name, val.L[i+1], val.L[i+1], maxSliceLen))
			case "tag":
				guards = append(guards, fmt.Sprintf("(<= 0 %s)", name))
			}
		}
		if v.T.Kind == "name" && (v.T.Name == "int" || v.T.Name == "mathint") {
			val = mathVal(val.L[0])
		}
		sub.bound[v.Name] = val
	}
	// facts generated while translating the body would mention bound variables: suppress them
	g.dryFacts++
	var autoPats []string
	if len(n.Trig) == 0 {
		// robust triggers: a bound integer i used as s[i] is re-expressed as the absolute position
		// j = off(s)+i in the backing array, and the element read at j becomes the pattern
		for _, v := range n.Vars {
			bv := sub.bound[v.Name]
			if bv == nil || !bv.Math || len(bv.L) != 1 {
				continue
			}
			anchor := findIndexAnchor(n.Body, v.Name, n.Vars)
			if anchor == nil {
				continue
			}
			sv := sub.eval(anchor)
			if sub.failed || sv.T == nil || len(sv.L) != 4 {
				sub.failed = false
				continue
			}
			sl, ok := types.Unalias(sv.T).Underlying().(*types.Slice)
			if !ok {
				continue
			}
			j := bv.L[0]
			sub.bound[v.Name] = mathVal("(- " + j + " " + sv.L[1] + ")")
			esh := g.W.shapes.shape(sl.Elem())
			if len(esh) >= 1 {
				key := g.elemCompKey(sl.Elem(), esh[0].Path)
				c := g.compTerm(sub.st, key, arrSort(sInt, arrSort(sInt, esh[0].Sort)))
				autoPats = append(autoPats, ":pattern ("+smtSel(smtSel(c, sv.L[0]), j)+")")
			}
		}
	}
	body := sub.evalBool(n.Body)
	var pats []string
	pats = append(pats, autoPats...)
	for _, tr := range n.Trig {
		var ts []string
		for _, t := range tr {
			tv := sub.eval(t)
			ts = append(ts, tv.L...)
		}
		pats = append(pats, ":pattern ("+strings.Join(ts, " ")+")")
	}
	g.dryFacts--
	if sub.failed {
		e.failed = true
	}
	// binders that occur neither in the body nor in a pattern are dropped (with their range guards)
	{
		allText := []string{body}
		allText = append(allText, pats...)
		var kd, kg []string
		for _, d := range decls {
			name := strings.Fields(d[1:])[0]
			if occursIn(allText, name) {
				kd = append(kd, d)
			}
		}
		for _, gd := range guards {
			keep := true
			for _, d := range decls {
				name := strings.Fields(d[1:])[0]
				if occursIn([]string{gd}, name) && !occursIn(allText, name) {
					keep = false
				}
			}
			if keep {
				kg = append(kg, gd)
			}
		}
		if len(kd) > 0 {
			decls, guards = kd, kg
		}
	}
	q := "forall"
	if n.Forall {
		body = smtImp(smtAnd(guards...), body)
	} else {
		q = "exists"
		body = smtAnd(append(guards, body)...)
	}
	if len(pats) > 0 {
		body = "(! " + body + " " + strings.Join(pats, " ") + ")"
	}
	extra := ""
	if n.Forall && e.outerBinders != "" {
		extra = e.outerBinders + " "
		e.outerUsed = true
	}
	return boolVal(fmt.Sprintf("(%s (%s%s) %s)", q, extra, strings.Join(decls, " "), body))
}

func (e *Env) evalCall(n *Call) *Value {
	g := e.g
	switch n.Fun {
	case "old":
		if e.old == nil {
			return e.fail("old() not available here")
		}
		sub := e.sub()
		sub.st = e.old
		sub.inBody = false
		return sub.eval(n.Args[0])
	case "len":
		v := e.eval(n.Args[0])
		if v.T == nil {
			return e.fail("len of untyped")
		}
		return mathVal(g.lenOf(e.st, v))
	case "cap":
		v := e.eval(n.Args[0])
		if len(v.L) == 4 {
			return mathVal(v.L[3])
		}
		return e.fail("cap of non-slice")
	case "fresh":
		v := e.eval(n.Args[0])
		if e.old == nil {
			return e.fail("fresh() not available here")
		}
		return boolVal(fmt.Sprintf("(and (> %s %s) (<= %s %s))", v.L[0], e.old.alloc, v.L[0], e.st.alloc))
	case "allocated":
		v := e.eval(n.Args[0])
		return boolVal(fmt.Sprintf("(<= %s %s)", v.L[0], e.st.alloc))
	case "bytes":
		v := e.eval(n.Args[0])
		if len(v.L) == 4 {
			return mathVal(g.bytesVal(e.st, v))
		}
		if isStringType(v.T) {
			return mathVal(v.term())
		}
		return e.fail("bytes() of non-slice")
	case "dom":
		m := e.eval(n.Args[0])
		if _, ok := types.Unalias(m.T).Underlying().(*types.Map); !ok {
			return e.fail("dom() of non-map")
		}
		d, ks := g.mapDomTerm(e.st, m)
		return &Value{T: m.T, L: []string{d}, SetElem: ks}
	case "locked":
		// locked(x.mtx): the mutex at this address is held (tracked through Lock/Unlock calls)
		lv := e.evalAddr(n.Args[0])
		if lv == nil {
			return e.fail("locked(): argument does not denote a mutex field")
		}
		id, ok := g.addrID(&Value{LV: lv, L: []string{"?"}})
		if !ok {
			return e.fail("locked(): unsupported address")
		}
		return boolVal(smtSel(g.compTerm(e.st, heldKey, arrSort(sInt, sBool)), id))
	case "addr":
		// addr(x.f): the identity of the address &x.f (as stored by the code when it keeps such a pointer)
		lv := e.evalAddr(n.Args[0])
		if lv == nil {
			return e.fail("addr(): argument does not denote memory")
		}
		mv, ok := g.materialize(&Value{T: types.NewPointer(lv.T), L: []string{"?"}, LV: lv})
		if !ok {
			return e.fail("addr(): unsupported address")
		}
		return mv
	case "off":
		v := e.eval(n.Args[0])
		if len(v.L) != 4 {
			return e.fail("off() of non-slice")
		}
		return mathVal(v.L[1])
	case "at":
		// at(s, j): element at absolute position j of the backing array of s (j = off(s)+i for s[i])
		v := e.eval(n.Args[0])
		sl, ok := types.Unalias(v.T).Underlying().(*types.Slice)
		if !ok || len(v.L) != 4 {
			return e.fail("at() of non-slice")
		}
		lv := &LValue{Kind: lvElem, Obj: v.L[0], Idx: e.eval(n.Args[1]).term(), Root: sl.Elem(), T: sl.Elem()}
		return g.load(e.st, lv)
	case "abs":
		v := e.eval(n.Args[0]).term()
		return mathVal("(abs " + v + ")")
	case "min", "max":
		a, b := e.eval(n.Args[0]).term(), e.eval(n.Args[1]).term()
		if n.Fun == "min" {
			return mathVal(smtIte("(<= "+a+" "+b+")", a, b))
		}
		return mathVal(smtIte("(>= "+a+" "+b+")", a, b))
	case "tag":
		v := e.eval(n.Args[0])
		if len(v.L) != 2 {
			return e.fail("tag() of non-interface")
		}
		return mathVal(v.L[0])
	case "ival":
		// payload word of an interface value (with tag(x): its identity)
		v := e.eval(n.Args[0])
		if len(v.L) != 2 {
			return e.fail("ival() of non-interface")
		}
		return mathVal(v.L[1])
	case "cat":
		// concatenation of two content identities (see appendOp)
		a, b := e.eval(n.Args[0]), e.eval(n.Args[1])
		g.decl("(declare-fun bytescat (Int Int) Int)")
		return mathVal("(bytescat " + a.term() + " " + b.term() + ")")
	case "stdlib_type":
		// the dynamic type of this interface value is declared outside the module (standard library)
		v := e.eval(n.Args[0])
		if len(v.L) != 2 {
			return e.fail("stdlib_type() of non-interface")
		}
		g.decl("(declare-fun stdtag (Int) Bool)")
		g.stdTagUsed = true
		return boolVal("(stdtag " + v.L[0] + ")")
	case "ref":
		v := e.eval(n.Args[0])
		return mathVal(v.L[0])
	case "unchanged":
		a := e.eval(n.Args[0])
		sub := e.sub()
		sub.st = e.old
		sub.inBody = false
		b := sub.eval(n.Args[0])
		return boolVal(e.equal(a, b))
	case "int8", "int16", "int32", "int64", "uint8", "uint16", "uint32", "uint64", "int", "uint", "byte":
		v := e.eval(n.Args[0]).term()
		o := types.Universe.Lookup(n.Fun)
		t := o.Type()
		lo, _, mod, signed, _ := intRange(t)
		if signed {
			return &Value{T: t, L: []string{fmt.Sprintf("(+ (mod (- %s %s) %s) %s)", v, lo, mod, lo)}}
		}
		return &Value{T: t, L: []string{fmt.Sprintf("(mod %s %s)", v, mod)}}
	case "chanlen":
		ch := e.eval(n.Args[0])
		et := types.Unalias(ch.T).Underlying().(*types.Chan).Elem()
		return mathVal(smtSel(g.compTerm(e.st, "CHN|"+typeKey(et), arrSort(sInt, sInt)), ch.term()))
	case "chanat":
		ch := e.eval(n.Args[0])
		idx := e.eval(n.Args[1]).term()
		et := types.Unalias(ch.T).Underlying().(*types.Chan).Elem()
		sh := g.W.shapes.shape(et)
		v := &Value{T: et, L: make([]string, len(sh))}
		for i, l := range sh {
			v.L[i] = smtSel(smtSel(g.compTerm(e.st, "CHD|"+typeKey(et)+"|"+l.Path, arrSort(sInt, arrSort(sInt, l.Sort))), ch.term()), idx)
		}
		return v
	}
	sf, ok := g.W.C.SpecFuncs[n.Fun]
	if !ok {
		return e.fail("unknown spec function %s", n.Fun)
	}
	if len(n.Args) != len(sf.Params) {
		return e.fail("spec function %s expects %d arguments, got %d", n.Fun, len(sf.Params), len(n.Args))
	}
	var args []*Value
	for _, a := range n.Args {
		args = append(args, e.eval(a))
	}
	if e.fuelFn == sf.Name && !e.fuelTrig[exprString(n)] {
		e.g.useTwin = true
		v := e.applySpec(sf, args)
		e.g.useTwin = false
		return v
	}
	return e.applySpec(sf, args)
}

// applySpec applies a spec function: macros are expanded, others are uninterpreted functions of
// their arguments and of the memory components their axioms read.
func (e *Env) applySpec(sf *SpecFunc, args []*Value) *Value {
	g := e.g
	if sf.Body != nil && !sf.isRecursive() {
		// the macro's own parameters shadow whatever the calling context binds under the same name (a quantified
		// variable, or the argument names of an at-call clause): no capture
		bound := e.bound
		for _, p := range sf.Params {
			if _, clash := bound[p.Name]; clash {
				bound = map[string]*Value{}
				for k, v := range e.bound {
					bound[k] = v
				}
				for _, q := range sf.Params {
					delete(bound, q.Name)
				}
				break
			}
		}
		sub := &Env{g: g, st: e.st, old: e.old, vars: map[string]*Value{}, pkgPath: sf.PkgPath, bound: bound}
		for i, p := range sf.Params {
			sub.vars[p.Name] = e.coerceArg(sf, p, args[i])
		}
		if g.specDepth > 20 {
			return e.fail("spec function %s: recursion too deep (macros cannot be recursive)", sf.Name)
		}
		g.specDepth++
		v := sub.eval(sf.Body)
		g.specDepth--
		if sub.failed {
			e.failed = true
		}
		return v
	}
	info := g.specInfo(sf)
	if info == nil {
		return e.fail("spec function %s could not be declared", sf.Name)
	}
	var in []string
	for _, k := range info.heap {
		in = append(in, g.compTerm(e.st, k, g.compSort[k]))
	}
	g.recordHeap(e.st, in)
	for i, p := range sf.Params {
		a := e.coerceArg(sf, p, args[i])
		if len(a.L) != info.argLeaves[i] {
			return e.fail("spec function %s: argument %s has %d leaves, expected %d", sf.Name, p.Name, len(a.L), info.argLeaves[i])
		}
		for j, l := range a.L {
			if info.argUsed[i][j] {
				in = append(in, l)
			}
		}
	}
	g.usedSpec[sf.Name] = true
	v := &Value{T: info.ret, L: make([]string, len(info.retNames))}
	if info.math {
		v.Math = true
		v.T = mathInt
	}
	for i, fn := range info.retNames {
		if g.useTwin && info.twin {
			fn += "$0"
		}
		if len(in) == 0 {
			v.L[i] = fn
		} else {
			v.L[i] = "(" + fn + " " + strings.Join(in, " ") + ")"
		}
	}
	return v
}

func (e *Env) coerceArg(sf *SpecFunc, p SParam, a *Value) *Value {
	if p.T != nil && p.T.Kind == "name" && p.T.Name == "bytes" {
		if len(a.L) == 4 {
			return mathVal(e.g.bytesVal(e.st, a))
		}
		return mathVal(a.L[0])
	}
	if isNilVal(a) && p.T != nil {
		if t, err := e.g.W.lookupType(p.T, sf.PkgPath); err == nil {
			return e.g.zeroValue(t)
		}
	}
	return a
}

type specInfo struct {
	heap      []string
	argUsed   [][]bool // per argument, per leaf: does any axiom mention it (unused leaves are not passed)
	argNames  [][]string
	argLeaves []int
	argSorts  []string
	ret       types.Type
	retNames  []string
	retSorts  []string
	allSorts  [][]string
	math      bool
	declared  bool
	twin      bool // a second symbol f$0 exists: unfolding axioms define f in terms of f$0 (no matching loop)
}

func (g *Gen) specParamType(sf *SpecFunc, tx *TypeX) (types.Type, bool, error) {
	if tx == nil {
		return mathInt, true, nil
	}
	if tx.Kind == "name" && (tx.Name == "int" || tx.Name == "mathint" || tx.Name == "bytes") {
		return mathInt, true, nil
	}
	t, err := g.W.lookupType(tx, sf.PkgPath)
	return t, false, err
}

// specInfo declares an uninterpreted spec function and emits its axioms (once).
func (g *Gen) specInfo(sf *SpecFunc) *specInfo {
	if info, ok := g.specInfos[sf.Name]; ok {
		return info
	}
	info := &specInfo{}
	if g.specInfos == nil {
		g.specInfos = map[string]*specInfo{}
	}
	g.specInfos[sf.Name] = info
	for _, p := range sf.Params {
		t, _, err := g.specParamType(sf, p.T)
		if err != nil {
			g.errorf("spec func %s: %v", sf.Name, err)
			return nil
		}
		sh := g.W.shapes.shape(t)
		info.argLeaves = append(info.argLeaves, len(sh))
		var names []string
		var used []bool
		for _, l := range sh {
			names = append(names, "a."+sanitize(p.Name+l.Path))
			used = append(used, len(sh) < 2 || (len(sf.Axioms) == 0 && !(sf.Body != nil && sf.isRecursive())))
		}
		info.argNames = append(info.argNames, names)
		info.argUsed = append(info.argUsed, used)
		info.allSorts = append(info.allSorts, func() []string {
			var ss []string
			for _, l := range sh {
				ss = append(ss, l.Sort)
			}
			return ss
		}())
	}
	rt, math, err := g.specParamType(sf, sf.Ret)
	if err != nil {
		g.errorf("spec func %s: %v", sf.Name, err)
		return nil
	}
	info.ret, info.math = rt, math
	for _, l := range g.W.shapes.shape(rt) {
		info.retNames = append(info.retNames, "sf."+sf.Name+sanitize(l.Path))
		info.retSorts = append(info.retSorts, l.Sort)
	}
	for _, ax := range sf.Axioms {
		if q, ok := ax.E.(*Quant); ok && len(q.Trig) > 0 {
			for _, tr := range q.Trig {
				for _, t := range tr {
					if c, ok := t.(*Call); ok && c.Fun == sf.Name {
						info.twin = true
					}
				}
			}
		}
	}
	// heap dependencies: fixpoint over the axioms translated with a symbolic heap
	var lastTexts []string
	for iter := 0; iter < 8; iter++ {
		sym := &symHeap{vars: map[string]string{}}
		texts := g.translateAxioms(sf, info, sym, false)
		var keys []string
		for k, v := range sym.vars {
			if occursIn(texts, v) {
				keys = append(keys, k)
			}
		}
		keys = mergeSorted(info.heap, keys)
		lastTexts = texts
		grew := false
		for i := range info.argNames {
			for j, n := range info.argNames[i] {
				if !info.argUsed[i][j] && occursIn(texts, n) {
					info.argUsed[i][j] = true
					grew = true
				}
			}
		}
		if len(keys) == len(info.heap) && !grew {
			break
		}
		info.heap = keys
	}
	_ = lastTexts
	for i := range info.allSorts {
		for j, srt := range info.allSorts[i] {
			if info.argUsed[i][j] {
				info.argSorts = append(info.argSorts, srt)
			}
		}
	}
	var sorts []string
	for _, k := range info.heap {
		sorts = append(sorts, g.compSort[k])
	}
	sorts = append(sorts, info.argSorts...)
	if !(sf.Body != nil && sf.isRecursive()) {
		for i, fn := range info.retNames {
			g.decl(fmt.Sprintf("(declare-fun %s (%s) %s)", fn, strings.Join(sorts, " "), info.retSorts[i]))
			if info.twin {
				g.decl(fmt.Sprintf("(declare-fun %s$0 (%s) %s)", fn, strings.Join(sorts, " "), info.retSorts[i]))
			}
		}
	}
	if info.twin {
		// synonym axiom: f == f$0, triggered only by f-terms
		var bs, as []string
		hv := map[string]string{}
		for _, k := range info.heap {
			n := "H." + sanitize(k)
			hv[k] = n
			as = append(as, n)
		}
		for i, srt := range info.argSorts {
			n := fmt.Sprintf("x%d", i)
			bs = append(bs, fmt.Sprintf("(%s %s)", n, srt))
			as = append(as, n)
		}
		for _, fn := range info.retNames {
			app := "(" + fn + " " + strings.Join(as, " ") + ")"
			app0 := "(" + fn + "$0 " + strings.Join(as, " ") + ")"
			if len(bs) > 0 {
				g.heapAxioms = append(g.heapAxioms, heapAxiom{text: fmt.Sprintf("(forall (%s) (! (= %s %s) :pattern (%s)))", strings.Join(bs, " "), app, app0, app), vars: hv})
			}
		}
	}
	info.declared = true
	sym := &symHeap{vars: map[string]string{}}
	nd := len(g.recDefs)
	g.translateAxioms(sf, info, sym, true)
	for _, d := range g.recDefs[nd:] {
		g.decl(d)
	}
	return info
}

func mergeSorted(a, b []string) []string {
	m := map[string]bool{}
	for _, x := range a {
		m[x] = true
	}
	for _, x := range b {
		m[x] = true
	}
	return sortedKeys(m)
}

type symHeap struct {
	vars map[string]string
}

func occursIn(texts []string, name string) bool {
	for _, t := range texts {
		for i := 0; ; {
			j := strings.Index(t[i:], name)
			if j < 0 {
				break
			}
			end := i + j + len(name)
			if end >= len(t) || t[end] == ' ' || t[end] == ')' {
				return true
			}
			i = end
		}
	}
	return false
}

func (g *Gen) translateAxioms(sf *SpecFunc, info *specInfo, sym *symHeap, emit bool) (texts []string) {
	if sf.Body != nil && sf.isRecursive() {
		return g.translateRecDef(sf, info, sym, emit)
	}
	for _, ax := range sf.Axioms {
		symState := &State{cells: map[*ssa.Alloc][]string{}, comps: map[string]string{}, alloc: "0", reach: "true", iters: map[ssa.Value]string{}}
		g.symStack = append(g.symStack, sym)
		g.symStates = append(g.symStates, symState)
		env := &Env{g: g, st: symState, old: symState, vars: map[string]*Value{}, pkgPath: sf.PkgPath, bound: map[string]*Value{}}
		// the spec function's parameters are universally quantified in its axioms
		var pdecls []string
		for _, p := range sf.Params {
			t, math, err := g.specParamType(sf, p.T)
			if err != nil {
				continue
			}
			sh := g.W.shapes.shape(t)
			v := &Value{T: t, L: make([]string, len(sh)), Math: math}
			for i, l := range sh {
				n := "a." + sanitize(p.Name+l.Path)
				v.L[i] = n
				pdecls = append(pdecls, fmt.Sprintf("(%s %s)", n, l.Sort))
			}
			env.bound[p.Name] = v
		}
		const ph = "<<BINDERS>>"
		env.outerBinders = ph
		if q, ok := ax.E.(*Quant); ok && info.twin && len(q.Trig) > 0 {
			env.fuelFn = sf.Name
			env.fuelTrig = map[string]bool{}
			for _, tr := range q.Trig {
				for _, t := range tr {
					env.fuelTrig[exprString(t)] = true
				}
			}
		}
		g.dryFacts++
		save := g.dry
		if !emit {
			g.dry++
		}
		var t string
		if q, ok := ax.E.(*Quant); ok && q.Forall {
			t = env.evalQuant(q).L[0]
		} else {
			t = env.evalBool(ax.E)
		}
		g.dry = save
		g.dryFacts--
		g.symStack = g.symStack[:len(g.symStack)-1]
		g.symStates = g.symStates[:len(g.symStates)-1]
		texts = append(texts, t)
		if emit {
			var bs []string
			hv := map[string]string{}
			for _, k := range sortedKeys(sym.vars) {
				if occursIn([]string{t}, sym.vars[k]) {
					hv[k] = sym.vars[k]
				}
			}
			for _, pd := range pdecls {
				name := strings.Fields(pd[1:])[0]
				if occursIn([]string{t}, name) {
					bs = append(bs, pd)
				}
			}
			if env.outerUsed {
				if len(bs) == 0 {
					// no parameter is used: drop the placeholder (and the separating blank)
					t = strings.Replace(t, ph+" ", "", 1)
				} else {
					t = strings.Replace(t, ph, strings.Join(bs, " "), 1)
				}
			} else if len(bs) > 0 {
				t = fmt.Sprintf("(forall (%s) %s)", strings.Join(bs, " "), t)
			}
			g.heapAxioms = append(g.heapAxioms, heapAxiom{text: t, vars: hv})
		}
	}
	return texts
}

func (sf *SpecFunc) isRecursive() bool {
	if sf.recKnown {
		return sf.rec
	}
	sf.recKnown = true
	sf.rec = mentionsCall(sf.Body, sf.Name)
	return sf.rec
}

func mentionsCall(e Expr, name string) bool {
	switch x := e.(type) {
	case *Call:
		if x.Fun == name {
			return true
		}
		for _, a := range x.Args {
			if mentionsCall(a, name) {
				return true
			}
		}
	case *Unary:
		return mentionsCall(x.X, name)
	case *Binary:
		return mentionsCall(x.X, name) || mentionsCall(x.Y, name)
	case *Cond:
		return mentionsCall(x.C, name) || mentionsCall(x.A, name) || mentionsCall(x.B, name)
	case *Field:
		return mentionsCall(x.X, name)
	case *Index:
		return mentionsCall(x.X, name) || mentionsCall(x.I, name)
	case *SliceE:
		return mentionsCall(x.X, name) || (x.Lo != nil && mentionsCall(x.Lo, name)) || (x.Hi != nil && mentionsCall(x.Hi, name))
	case *Deref:
		return mentionsCall(x.X, name)
	case *Quant:
		return mentionsCall(x.Body, name)
	case *Cast:
		return mentionsCall(x.X, name)
	case *TypeIs:
		return mentionsCall(x.X, name)
	}
	return false
}

// translateRecDef handles `spec func f(..) T = <body mentioning f>`: a recursive definition, emitted as
// define-fun-rec whose formals are the memory components it reads followed by its argument leaves.
func (g *Gen) translateRecDef(sf *SpecFunc, info *specInfo, sym *symHeap, emit bool) (texts []string) {
	symState := &State{cells: map[*ssa.Alloc][]string{}, comps: map[string]string{}, alloc: "0", reach: "true", iters: map[ssa.Value]string{}}
	g.symStack = append(g.symStack, sym)
	g.symStates = append(g.symStates, symState)
	env := &Env{g: g, st: symState, old: symState, vars: map[string]*Value{}, pkgPath: sf.PkgPath, bound: map[string]*Value{}}
	type formal struct{ name, sort string }
	var formals [][]formal
	for _, p := range sf.Params {
		t, math, err := g.specParamType(sf, p.T)
		if err != nil {
			continue
		}
		sh := g.W.shapes.shape(t)
		v := &Value{T: t, L: make([]string, len(sh)), Math: math}
		var fs []formal
		for i, l := range sh {
			n := "a." + sanitize(p.Name+l.Path)
			v.L[i] = n
			fs = append(fs, formal{n, l.Sort})
		}
		formals = append(formals, fs)
		env.bound[p.Name] = v
	}
	g.dryFacts++
	save := g.dry
	if !emit {
		g.dry++
	}
	body := env.eval(sf.Body)
	g.dry = save
	g.dryFacts--
	g.symStack = g.symStack[:len(g.symStack)-1]
	g.symStates = g.symStates[:len(g.symStates)-1]
	if len(body.L) != len(info.retNames) {
		g.errorf("spec func %s: recursive body has %d leaves, declared result has %d", sf.Name, len(body.L), len(info.retNames))
		return nil
	}
	texts = append(texts, body.L...)
	if emit {
		var fs []string
		for _, k := range info.heap {
			fs = append(fs, fmt.Sprintf("(%s %s)", sym.get(k), g.compSort[k]))
		}
		for i, pf := range formals {
			for j, f := range pf {
				if info.argUsed[i][j] {
					fs = append(fs, fmt.Sprintf("(%s %s)", f.name, f.sort))
				}
			}
		}
		for i, fn := range info.retNames {
			g.recDefs = append(g.recDefs, fmt.Sprintf("(define-fun-rec %s (%s) %s %s)", fn, strings.Join(fs, " "), info.retSorts[i], body.L[i]))
		}
	}
	return texts
}

func (s *symHeap) get(k string) string {
	if v, ok := s.vars[k]; ok {
		return v
	}
	v := "H." + sanitize(k)
	s.vars[k] = v
	return v
}

// heapAxiom is an axiom or lemma whose text mentions memory components through placeholder
// variables; it is instantiated at every heap that spec functions are actually applied to.
type heapAxiom struct {
	text string
	vars map[string]string // component key -> placeholder variable
}

func (g *Gen) recordHeap(st *State, sigTerms []string) {
	if n := len(g.symStates); n > 0 && st == g.symStates[n-1] {
		return
	}
	sig := strings.Join(sigTerms, "|")
	if g.heapSigs == nil {
		g.heapSigs = map[string]bool{}
	}
	if g.heapSigs[sig] {
		return
	}
	g.heapSigs[sig] = true
	snap := make(map[string]string, len(st.comps))
	for k, v := range st.comps {
		snap[k] = v
	}
	g.heapSnaps = append(g.heapSnaps, snap)
}

// finalAxioms instantiates every heap-dependent axiom at every recorded heap.
func (g *Gen) finalAxioms() []string {
	out := append([]string{}, g.specAxioms...)
	if g.stdTagUsed {
		for _, k := range sortedKeys(g.typeIDs) {
			if g.nonStdTags[g.typeIDs[k]] {
				out = append(out, fmt.Sprintf("(not (stdtag %d))", g.typeIDs[k]))
			}
		}
	}
	seen := map[string]bool{}
	for _, a := range out {
		seen[a] = true
	}
	for _, ha := range g.heapAxioms {
		if len(ha.vars) == 0 {
			if !seen[ha.text] {
				seen[ha.text] = true
				out = append(out, ha.text)
			}
			continue
		}
		for _, snap := range g.heapSnaps {
			st := &State{comps: snap}
			t := ha.text
			for _, k := range sortedKeys(ha.vars) {
				t = replaceToken(t, ha.vars[k], g.compTerm(st, k, g.compSort[k]))
			}
			if !seen[t] {
				seen[t] = true
				out = append(out, t)
			}
		}
	}
	return out
}

// replaceToken replaces whole-token occurrences of name (delimited by blank or parenthesis).
func replaceToken(t, name, by string) string {
	var sb strings.Builder
	for i := 0; i < len(t); {
		j := strings.Index(t[i:], name)
		if j < 0 {
			sb.WriteString(t[i:])
			break
		}
		end := i + j + len(name)
		sb.WriteString(t[i : i+j])
		if end >= len(t) || t[end] == ' ' || t[end] == ')' {
			sb.WriteString(by)
		} else {
			sb.WriteString(name)
		}
		i = end
	}
	return sb.String()
}

// findIndexAnchor returns a slice expression X such that the body contains X[v] and X does not
// mention any variable bound by the same quantifier.
func findIndexAnchor(e Expr, v string, bound []SParam) Expr {
	var found Expr
	mentions := func(x Expr) bool {
		for _, b := range bound {
			if mentionsIdent(x, b.Name) {
				return true
			}
		}
		return false
	}
	var walk func(e Expr)
	walk = func(e Expr) {
		if found != nil || e == nil {
			return
		}
		switch x := e.(type) {
		case *Index:
			if id, ok := x.I.(*Ident); ok && id.Name == v && !mentions(x.X) {
				found = x.X
				return
			}
			walk(x.X)
			walk(x.I)
		case *Unary:
			walk(x.X)
		case *Binary:
			walk(x.X)
			walk(x.Y)
		case *Cond:
			walk(x.C)
			walk(x.A)
			walk(x.B)
		case *Call:
			if x.Fun == "old" {
				return // anchors inside old() live in another state
			}
			for _, a := range x.Args {
				walk(a)
			}
		case *Field:
			walk(x.X)
		case *Deref:
			walk(x.X)
		case *Quant:
			walk(x.Body)
		case *SliceE:
			walk(x.X)
		}
	}
	walk(e)
	return found
}

func mentionsIdent(e Expr, name string) bool {
	switch x := e.(type) {
	case *Ident:
		return x.Name == name
	case *Unary:
		return mentionsIdent(x.X, name)
	case *Binary:
		return mentionsIdent(x.X, name) || mentionsIdent(x.Y, name)
	case *Cond:
		return mentionsIdent(x.C, name) || mentionsIdent(x.A, name) || mentionsIdent(x.B, name)
	case *Call:
		for _, a := range x.Args {
			if mentionsIdent(a, name) {
				return true
			}
		}
	case *Field:
		return mentionsIdent(x.X, name)
	case *Index:
		return mentionsIdent(x.X, name) || mentionsIdent(x.I, name)
	case *SliceE:
		return mentionsIdent(x.X, name) || (x.Lo != nil && mentionsIdent(x.Lo, name)) || (x.Hi != nil && mentionsIdent(x.Hi, name))
	case *Deref:
		return mentionsIdent(x.X, name)
	case *Quant:
		return mentionsIdent(x.Body, name)
	case *Cast:
		return mentionsIdent(x.X, name)
	case *TypeIs:
		return mentionsIdent(x.X, name)
	}
	return false
}
