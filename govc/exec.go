package main

// Symbolic execution of naive-form SSA, block by block, merging at joins (passive form).

import (
	"math/big"
	"fmt"
	"go/constant"
	"go/token"
	"go/types"
	"regexp"
	"sort"
	"strings"

	"golang.org/x/tools/go/ssa"
)

type deferRec struct {
	instr *ssa.Defer
	args  []*Value
	fnv   *Value
	armed string
}

type frame struct {
	fn       *ssa.Function
	fc       *FuncContract
	regs     map[ssa.Value]*Value
	defers   []*deferRec
	depth    int
	old      *State
	params   map[string]*Value // entry values of parameters (and free variables) by name
	loopOrd  map[*ssa.BasicBlock]int
	top      bool
	text     map[ssa.Value]string
	namedRes []*ssa.Alloc
	heapLocals map[string]*LValue // named locals that live on the heap (address taken)
}

type retRec struct {
	st      *State
	results []*Value
}

// ---------------------------------------------------------------------------
// loops

type loopInfo struct {
	header *ssa.BasicBlock
	body   map[*ssa.BasicBlock]bool
	ord    int
	pos    token.Pos
}

func findLoops(fn *ssa.Function) map[*ssa.BasicBlock]*loopInfo {
	loops := map[*ssa.BasicBlock]*loopInfo{}
	for _, b := range fn.Blocks {
		for _, s := range b.Succs {
			if s.Dominates(b) { // back edge b -> s
				li := loops[s]
				if li == nil {
					li = &loopInfo{header: s, body: map[*ssa.BasicBlock]bool{s: true}}
					loops[s] = li
				}
				// natural loop: all blocks that reach b without passing s
				var stack []*ssa.BasicBlock
				if !li.body[b] {
					li.body[b] = true
					stack = append(stack, b)
				}
				for len(stack) > 0 {
					x := stack[len(stack)-1]
					stack = stack[:len(stack)-1]
					for _, p := range x.Preds {
						if !li.body[p] {
							li.body[p] = true
							stack = append(stack, p)
						}
					}
				}
			}
		}
	}
	// ordinals by source position
	var list []*loopInfo
	for _, li := range loops {
		li.pos = token.NoPos
		for b := range li.body {
			for _, in := range b.Instrs {
				if _, ok := in.(*ssa.DebugRef); ok {
					continue
				}
				if p := in.Pos(); p.IsValid() && (!li.pos.IsValid() || p < li.pos) {
					li.pos = p
				}
			}
		}
		list = append(list, li)
	}
	sort.Slice(list, func(i, j int) bool {
		if list[i].pos != list[j].pos {
			return list[i].pos < list[j].pos
		}
		if len(list[i].body) != len(list[j].body) {
			return len(list[i].body) > len(list[j].body)
		}
		return list[i].header.Index < list[j].header.Index
	})
	for i, li := range list {
		li.ord = i + 1
	}
	return loops
}

func rpo(fn *ssa.Function) []*ssa.BasicBlock {
	seen := map[*ssa.BasicBlock]bool{}
	var post []*ssa.BasicBlock
	var dfs func(b *ssa.BasicBlock)
	dfs = func(b *ssa.BasicBlock) {
		seen[b] = true
		for _, s := range b.Succs {
			if s.Dominates(b) {
				continue // back edge
			}
			if !seen[s] {
				dfs(s)
			}
		}
		post = append(post, b)
	}
	dfs(fn.Blocks[0])
	for i, j := 0, len(post)-1; i < j; i, j = i+1, j-1 {
		post[i], post[j] = post[j], post[i]
	}
	return post
}

// ---------------------------------------------------------------------------
// merging

type inEdge struct {
	st   *State
	cond string // edge condition (already includes st.reach)
	from *ssa.BasicBlock
}

func (g *Gen) merge(ins []inEdge, label string) *State {
	if len(ins) == 1 {
		st := ins[0].st.clone()
		st.reach = g.nameReach(ins[0].cond, label)
		return st
	}
	out := &State{cells: map[*ssa.Alloc][]string{}, comps: map[string]string{}, iters: map[ssa.Value]string{}}
	conds := make([]string, len(ins))
	for i, e := range ins {
		conds[i] = e.cond
	}
	out.reach = g.nameReach(smtOr(conds...), label)
	mergeTerm := func(prefix, sort string, terms []string, have []bool) string {
		same := true
		first := ""
		for i, t := range terms {
			if !have[i] {
				continue
			}
			if first == "" {
				first = t
			} else if t != first {
				same = false
			}
		}
		if same {
			return first
		}
		x := g.fresh(prefix, sort)
		tok, tokOK := "", len(g.addrTokens) > 0
		for i, t := range terms {
			if have[i] {
				g.addCons(smtImp(conds[i], smtEq(x, t)))
				if tokOK && t != "0" {
					// an address token merged with nil (or with itself) stays recoverable under the merged name
					if lv := g.tokenLV(t); lv != nil && (tok == "" || tok == addrTokenRe.FindString(t)) && addrTokenRe.FindString(t) == t {
						tok = t
					} else {
						tokOK = false
					}
				}
			}
		}
		if tokOK && tok != "" {
			cp := *g.addrTokens[tok]
			g.addrTokens[x] = &cp
			g.tokenAlias = append(g.tokenAlias, x)
		}
		return x
	}
	// alloc
	{
		terms := make([]string, len(ins))
		have := make([]bool, len(ins))
		for i, e := range ins {
			terms[i], have[i] = e.st.alloc, true
		}
		out.alloc = mergeTerm("alloc", sInt, terms, have)
	}
	// cells
	cellSet := map[*ssa.Alloc]bool{}
	for _, e := range ins {
		for c := range e.st.cells {
			cellSet[c] = true
		}
	}
	var cells []*ssa.Alloc
	for c := range cellSet {
		cells = append(cells, c)
	}
	sort.Slice(cells, func(i, j int) bool {
		if cells[i].Pos() != cells[j].Pos() {
			return cells[i].Pos() < cells[j].Pos()
		}
		return cells[i].Name() < cells[j].Name()
	})
	for _, c := range cells {
		sh := g.W.shapes.shape(c.Type().(*types.Pointer).Elem())
		leaves := make([]string, len(sh))
		for li, l := range sh {
			terms := make([]string, len(ins))
			have := make([]bool, len(ins))
			for i, e := range ins {
				if cv, ok := e.st.cells[c]; ok {
					terms[i], have[i] = cv[li], true
				}
			}
			leaves[li] = mergeTerm("m."+c.Comment+l.Path, l.Sort, terms, have)
		}
		out.cells[c] = leaves
	}
	// components
	compSet := map[string]bool{}
	for _, e := range ins {
		for k := range e.st.comps {
			compSet[k] = true
		}
	}
	for _, k := range sortedKeys(compSet) {
		terms := make([]string, len(ins))
		have := make([]bool, len(ins))
		srt := g.compSort[k]
		for i, e := range ins {
			terms[i], have[i] = g.compTerm(e.st, k, srt), true
		}
		t := mergeTerm("C."+k, srt, terms, have)
		out.comps[k] = t
	}
	// iterators
	itSet := map[ssa.Value]bool{}
	for _, e := range ins {
		for k := range e.st.iters {
			itSet[k] = true
		}
	}
	for it := range itSet {
		terms := make([]string, len(ins))
		have := make([]bool, len(ins))
		for i, e := range ins {
			if t, ok := e.st.iters[it]; ok {
				terms[i], have[i] = t, true
			}
		}
		srt := g.iterSort(it)
		out.iters[it] = mergeTerm("iter", srt, terms, have)
	}
	return out
}

func (g *Gen) nameReach(term, label string) string {
	if term == "true" || term == "false" || g.dry > 0 {
		return term
	}
	if !strings.HasPrefix(term, "(") {
		return term
	}
	n := g.fresh("reach."+label, sBool)
	g.addCons(smtEq(n, term))
	return n
}

// ---------------------------------------------------------------------------
// running a function body

func (g *Gen) newFrame(fn *ssa.Function, depth int) *frame {
	fr := &frame{fn: fn, regs: map[ssa.Value]*Value{}, depth: depth, params: map[string]*Value{}, text: g.W.textOf(fn)}
	fr.fc = g.W.C.Funcs[funcKey(fn)]
	return fr
}

// runBody executes fn from state st with the given argument values. It returns the merged
// exit state and results; exit is nil if no return is reachable.
func (g *Gen) runBody(fr *frame, args []*Value, bindings []*Value, st *State) (*State, []*Value) {
	fn := fr.fn
	if len(fn.Blocks) == 0 {
		g.errorf("function %s has no body", funcKey(fn))
		return nil, nil
	}
	for i, p := range fn.Params {
		fr.regs[p] = args[i]
		fr.params[p.Name()] = args[i]
	}
	for i, fv := range fn.FreeVars {
		if i < len(bindings) {
			fr.regs[fv] = bindings[i]
			fr.params[fv.Name()] = bindings[i]
		}
	}
	if fn == g.fn {
		for contractName, codeName := range g.alias { // positional binding of renamed parameters
			if v, ok := fr.params[codeName]; ok {
				if _, clash := fr.params[contractName]; !clash {
					fr.params[contractName] = v
				}
			}
		}
	}
	fr.old = st.clone()
	loops := findLoops(fn)
	order := rpo(fn)
	ins := map[*ssa.BasicBlock][]inEdge{}
	ins[fn.Blocks[0]] = []inEdge{{st, st.reach, nil}}
	var rets []retRec
	g.runBlocks(fr, order, loops, ins, &rets, nil)
	if len(rets) == 0 {
		return nil, nil
	}
	// merge returns
	var edges []inEdge
	for _, r := range rets {
		edges = append(edges, inEdge{r.st, r.st.reach, nil})
	}
	out := g.merge(edges, "exit."+fn.Name())
	nres := len(rets[0].results)
	results := make([]*Value, nres)
	for k := 0; k < nres; k++ {
		if len(rets) == 1 {
			results[k] = rets[0].results[k]
			continue
		}
		t := rets[0].results[k].T
		sh := g.W.shapes.shape(t)
		v := &Value{T: t, L: make([]string, len(sh))}
		for li, l := range sh {
			same := true
			for _, r := range rets {
				if len(r.results[k].L) != len(sh) {
					g.errorf("result %d of %s: leaf count mismatch", k, funcKey(fn))
					return out, results
				}
				if r.results[k].L[li] != rets[0].results[k].L[li] {
					same = false
				}
			}
			if same {
				v.L[li] = rets[0].results[k].L[li]
				continue
			}
			x := g.fresh(fmt.Sprintf("res%d%s", k, l.Path), l.Sort)
			for _, r := range rets {
				g.addCons(smtImp(r.st.reach, smtEq(x, r.results[k].L[li])))
			}
			v.L[li] = x
		}
		results[k] = v
	}
	// drop this frame's cells (the top frame keeps them: postconditions may name locals)
	if !fr.top {
		for c := range out.cells {
			if c.Parent() == fn {
				delete(out.cells, c)
			}
		}
	}
	return out, results
}

// runBlocks processes the blocks of `order` restricted to `only` (nil = all).
func (g *Gen) runBlocks(fr *frame, order []*ssa.BasicBlock, loops map[*ssa.BasicBlock]*loopInfo, ins map[*ssa.BasicBlock][]inEdge, rets *[]retRec, only map[*ssa.BasicBlock]bool) {
	for _, b := range order {
		if only != nil && !only[b] {
			continue
		}
		edges := ins[b]
		if len(edges) == 0 {
			continue
		}
		g.setPhiConds(b, edges)
		st := g.merge(edges, fmt.Sprintf("b%d", b.Index))
		if li, ok := loops[b]; ok {
			st = g.cutLoop(fr, li, st, order, loops)
			if st == nil {
				continue
			}
		}
		g.execBlock(fr, b, st, loops, ins, rets)
	}
}

func (g *Gen) invEnv(fr *frame, st *State, li *loopInfo) *Env {
	env := &Env{g: g, st: st, old: fr.old, vars: map[string]*Value{}, fr: fr, pkgPath: fr.fn.Pkg.Pkg.Path(), inBody: true}
	// $k for range loops: rangeindex + 1
	for _, in := range li.header.Instrs {
		if u, ok := in.(*ssa.UnOp); ok && u.Op == token.MUL {
			if a, ok := u.X.(*ssa.Alloc); ok && a.Comment == "rangeindex" {
				if cv, ok := st.cells[a]; ok {
					env.vars["$k"] = &Value{T: types.Typ[types.UntypedInt], L: []string{"(+ " + cv[0] + " 1)"}, Math: true}
				}
			}
			break
		}
	}
	return env
}

// cutLoop asserts the invariant on entry, havocs what the loop writes and assumes the invariant.
func (g *Gen) cutLoop(fr *frame, li *loopInfo, st *State, order []*ssa.BasicBlock, loops map[*ssa.BasicBlock]*loopInfo) *State {
	var invs []Clause
	if fr.fc != nil {
		invs = fr.fc.LoopInvs[li.ord]
	}
	if len(invs) == 0 && g.dry == 0 {
		g.errorf("%s: loop %d (at %s) has no invariant", funcKey(fr.fn), li.ord, posOf(g.W.Fset, li.pos))
	}
	// inv-init
	for i, c := range invs {
		env := g.invEnv(fr, st, li)
		t := env.evalBool(c.E)
		g.addOblig(st, "inv-init", fmt.Sprintf("loop%d.init.%s", li.ord, clauseName(c, i)), t, c.Src)
	}
	// two dry passes to find what the loop writes
	cells, comps, allocs := g.loopWrites(fr, li, st, order, loops)
	h := st.clone()
	for _, c := range cells {
		if _, ok := h.cells[c]; !ok {
			continue
		}
		sh := g.W.shapes.shape(c.Type().(*types.Pointer).Elem())
		leaves := make([]string, len(sh))
		for i, l := range sh {
			leaves[i] = g.fresh("hv."+c.Comment+l.Path, l.Sort)
		}
		h.cells[c] = leaves
		g.facts(h, &Value{T: c.Type().(*types.Pointer).Elem(), L: leaves})
	}
	if allocs {
		na := g.fresh("alloc", sInt)
		g.addCons(fmt.Sprintf("(>= %s %s)", na, st.alloc))
		h.alloc = na
	}
	for _, k := range sortedKeys(comps) {
		recs := comps[k]
		srt := g.compSort[k]
		cur := g.compTerm(h, k, srt)
		narrow := strings.HasPrefix(srt, "(Array Int ") && !strings.HasPrefix(k, "V|") && !strings.HasPrefix(k, "G|")
		var objs []string
		freshWrites := false
		for _, r := range recs {
			if !r.whole && r.obj != "" && g.loopFreshObj(r.obj) {
				freshWrites = true
				continue
			}
			if r.whole || r.obj == "" || !g.preLoopTerm(r.obj, comps, h) {
				narrow = false
				break
			}
			dup := false
			for _, o := range objs {
				if o == r.obj {
					dup = true
				}
			}
			if !dup {
				objs = append(objs, r.obj)
			}
		}
		if narrow && len(objs) <= 4 {
			inner := srt[len("(Array Int ") : len(srt)-1]
			t := cur
			for _, o := range objs {
				t = smtSto(t, o, g.fresh("hv."+k, inner))
			}
			if freshWrites {
				// objects allocated inside the loop may hold anything; older objects keep their contents
				nv := g.fresh("hv.C."+k, srt)
				o := g.freshName("o")
				g.addCons(fmt.Sprintf("(forall ((%s Int)) (! (=> (<= %s %s) (= (select %s %s) (select %s %s))) :pattern ((select %s %s))))", o, o, st.alloc, nv, o, t, o, nv, o))
				t = nv
			}
			h.comps[k] = t
		} else {
			h.comps[k] = g.fresh("hv.C."+k, srt)
		}
	}
	for it := range st.iters {
		if li.body[it.(ssa.Instruction).Block()] || true {
			// iterator state may advance in the loop
			if g.iterInLoop(it, li) {
				h.iters[it] = g.fresh("hv.iter", g.iterSort(it))
			}
		}
	}
	// assume invariants
	for _, c := range invs {
		env := g.invEnv(fr, h, li)
		t := env.evalBool(c.E)
		g.assume(h, t)
	}
	return h
}

var freshRe = regexp.MustCompile(`!(\d+)`)

// loopFreshObj: the term is an object allocated during the dry pass of the loop body.
func (g *Gen) loopFreshObj(t string) bool {
	if !strings.HasPrefix(t, "obj!") {
		return false
	}
	var n int
	if _, err := fmt.Sscan(t[4:], &n); err != nil {
		return false
	}
	return n > g.loopWatermark
}

// preLoopTerm: the term mentions only symbols created before the watermark and no havocked component.
func (g *Gen) preLoopTerm(t string, comps map[string][]writeRec, st *State) bool {
	for _, m := range freshRe.FindAllStringSubmatch(t, -1) {
		var n int
		fmt.Sscan(m[1], &n)
		if n > g.loopWatermark {
			return false
		}
	}
	return true
}

// loopWrites runs the loop body in dry mode and reports written cells/components.
func (g *Gen) loopWrites(fr *frame, li *loopInfo, st *State, order []*ssa.BasicBlock, loops map[*ssa.BasicBlock]*loopInfo) ([]*ssa.Alloc, map[string][]writeRec, bool) {
	saveCells, saveComps, saveAlloc := g.wCells, g.wComps, g.wAlloc
	saveRegs := map[ssa.Value]*Value{}
	for k, v := range fr.regs {
		saveRegs[k] = v
	}
	saveDefers := fr.defers
	saveErrs := len(g.errs)
	run := func(from *State) {
		g.dry++
		g.wCells, g.wComps, g.wAlloc = map[*ssa.Alloc]bool{}, map[string][]writeRec{}, false
		ins := map[*ssa.BasicBlock][]inEdge{}
		var rets []retRec
		s := from.clone()
		s.reach = "true"
		g.execBlockIn(fr, li.header, s, loops, ins, &rets, li)
		// remaining body blocks
		sub := map[*ssa.BasicBlock]bool{}
		for b := range li.body {
			if b != li.header {
				sub[b] = true
			}
		}
		g.runBlocksLoop(fr, order, loops, ins, &rets, sub, li)
		g.dry--
	}
	// pass 1: which cells/components are written
	run(st)
	cellSet, compSet, allocs := g.wCells, g.wComps, g.wAlloc
	needPass2 := false
	for k, recs := range compSet {
		_ = k
		for _, r := range recs {
			if !r.whole {
				needPass2 = true
			}
		}
	}
	var cells []*ssa.Alloc
	for c := range cellSet {
		cells = append(cells, c)
	}
	sort.Slice(cells, func(i, j int) bool { return cells[i].Name() < cells[j].Name() })
	g.loopWatermark = g.nfresh
	if needPass2 {
		// pass 2: from a fully havocked state, to learn which object terms are loop invariant
		h := st.clone()
		g.dry++
		for _, c := range cells {
			if _, ok := h.cells[c]; !ok {
				continue
			}
			sh := g.W.shapes.shape(c.Type().(*types.Pointer).Elem())
			leaves := make([]string, len(sh))
			for i, l := range sh {
				leaves[i] = g.fresh("dry."+c.Comment+l.Path, l.Sort)
			}
			h.cells[c] = leaves
		}
		for k := range compSet {
			h.comps[k] = g.fresh("dry.C."+k, g.compSort[k])
		}
		h.alloc = g.fresh("dry.alloc", sInt)
		g.dry--
		run(h)
		compSet = g.wComps
		for c := range g.wCells {
			if !cellSet[c] {
				cells = append(cells, c)
			}
		}
		allocs = allocs || g.wAlloc
	}
	g.wCells, g.wComps, g.wAlloc = saveCells, saveComps, saveAlloc
	// the enclosing dry run (if any) must see these writes too
	if g.dry > 0 {
		for _, c := range cells {
			g.wCells[c] = true
		}
		for k, recs := range compSet {
			g.wComps[k] = append(g.wComps[k], recs...)
		}
		g.wAlloc = g.wAlloc || allocs
	}
	fr.regs = saveRegs
	fr.defers = saveDefers
	if g.dry == 0 {
		_ = saveErrs
	}
	return cells, compSet, allocs
}

func (g *Gen) runBlocksLoop(fr *frame, order []*ssa.BasicBlock, loops map[*ssa.BasicBlock]*loopInfo, ins map[*ssa.BasicBlock][]inEdge, rets *[]retRec, only map[*ssa.BasicBlock]bool, outer *loopInfo) {
	for _, b := range order {
		if !only[b] {
			continue
		}
		edges := ins[b]
		var st *State
		if len(edges) == 0 {
			continue
		}
		g.setPhiConds(b, edges)
		st = g.merge(edges, fmt.Sprintf("b%d", b.Index))
		if li, ok := loops[b]; ok && li != outer {
			st = g.cutLoop(fr, li, st, order, loops)
			if st == nil {
				continue
			}
		}
		g.execBlockIn(fr, b, st, loops, ins, rets, outer)
	}
}

func (g *Gen) execBlock(fr *frame, b *ssa.BasicBlock, st *State, loops map[*ssa.BasicBlock]*loopInfo, ins map[*ssa.BasicBlock][]inEdge, rets *[]retRec) {
	g.execBlockIn(fr, b, st, loops, ins, rets, nil)
}

func clauseName(c Clause, i int) string {
	if c.Label != "" {
		return c.Label
	}
	return fmt.Sprint(i + 1)
}

// execBlockIn executes one basic block. dryLoop != nil while scanning a loop body in dry mode:
// then edges leaving the loop and back edges are dropped.
func (g *Gen) execBlockIn(fr *frame, b *ssa.BasicBlock, st *State, loops map[*ssa.BasicBlock]*loopInfo, ins map[*ssa.BasicBlock][]inEdge, rets *[]retRec, dryLoop *loopInfo) {
	pushEdge := func(to *ssa.BasicBlock, cond string) {
		full := smtAnd(st.reach, cond)
		if to.Dominates(b) { // back edge
			li := loops[to]
			if g.dry > 0 {
				return
			}
			var invs []Clause
			if fr.fc != nil {
				invs = fr.fc.LoopInvs[li.ord]
			}
			es := st.clone()
			es.reach = g.nameReach(full, "back")
			for i, c := range invs {
				env := g.invEnv(fr, es, li)
				t := env.evalBool(c.E)
				g.addOblig(es, "inv-step", fmt.Sprintf("loop%d.step.%s", li.ord, clauseName(c, i)), t, c.Src)
			}
			return
		}
		if dryLoop != nil && !dryLoop.body[to] {
			return
		}
		ins[to] = append(ins[to], inEdge{st.clone(), full, b})
	}
	for _, in := range b.Instrs {
		switch i := in.(type) {
		case *ssa.DebugRef:
		case *ssa.If:
			c := g.val(fr, st, i.Cond).term()
			pushEdge(b.Succs[0], c)
			pushEdge(b.Succs[1], smtNot(c))
			return
		case *ssa.Jump:
			pushEdge(b.Succs[0], "true")
			return
		case *ssa.Return:
			var rs []*Value
			for _, r := range i.Results {
				rs = append(rs, g.val(fr, st, r))
			}
			if dryLoop == nil {
				*rets = append(*rets, retRec{st.clone(), rs})
			}
			return
		case *ssa.Panic:
			g.panicHere(fr, st, "panic", exprOr(fr.text[i.X], "explicit panic"))
			return
		default:
			g.execInstr(fr, st, in)
		}
	}
}

func exprOr(s, d string) string {
	if s == "" {
		return d
	}
	return s
}

// panicHere: the current point panics. Under panics_never this is an obligation (unreachable).
func (g *Gen) panicHere(fr *frame, st *State, kind, what string) {
	if g.panicsNever {
		name := g.safetyName(kind, what)
		goal := "false"
		if g.fc != nil && len(g.fc.MayPanic) > 0 {
			var alts []string
			for _, c := range g.fc.MayPanic {
				env := &Env{g: g, st: g.entry, old: g.entry, vars: g.entryParams, pkgPath: g.fn.Pkg.Pkg.Path()}
				alts = append(alts, env.evalBool(c.E))
			}
			goal = smtOr(alts...)
		}
		g.addOblig(st, "safety", name, goal, what)
	} else if g.fc != nil && len(g.fc.PanicOnlyWhen) > 0 {
		g.addOblig(st, "safety", g.safetyName(kind, what), g.panicAllowed(st), what)
	}
	st.reach = "false"
}

func (g *Gen) safetyName(kind, what string) string {
	what = strings.Join(strings.Fields(what), "")
	if len(what) > 60 {
		what = what[:60]
	}
	base := "safety." + kind + "[" + what + "]"
	g.safetyN[base]++
	if n := g.safetyN[base]; n > 1 {
		return fmt.Sprintf("%s.%d", base, n)
	}
	return base
}

// guard: execution continues only if cond holds (otherwise a run-time panic). Under panics_never
// the condition is an obligation first.
func (g *Gen) guard(fr *frame, st *State, kind, what, cond string) {
	if cond == "true" {
		return
	}
	if g.panicsNever {
		g.addOblig(st, "safety", g.safetyName(kind, what), cond, what)
	} else if g.fc != nil && len(g.fc.PanicOnlyWhen) > 0 && fr != nil {
		g.addOblig(st, "safety", g.safetyName(kind, what), smtOr(cond, g.panicAllowed(st)), what)
	}
	st.reach = g.nameReach(smtAnd(st.reach, cond), "ok")
}

// ---------------------------------------------------------------------------
// values

func (g *Gen) val(fr *frame, st *State, v ssa.Value) *Value {
	switch c := v.(type) {
	case *ssa.Const:
		return g.constVal(c)
	case *ssa.Global:
		t := c.Type().(*types.Pointer).Elem()
		name := c.Pkg.Pkg.Path() + "." + c.Name()
		name = strings.TrimPrefix(name, modPath+"/")
		g.globalFacts(st, name, t)
		return &Value{T: c.Type(), L: []string{"?glob"}, LV: &LValue{Kind: lvGlobal, Global: name, Root: t, T: t}}
	case *ssa.Function:
		return &Value{T: c.Type(), L: []string{g.funcID(c)}, Fn: &FuncVal{Fn: c}}
	case *ssa.Builtin:
		return &Value{T: c.Type(), L: []string{"0"}}
	}
	if r, ok := fr.regs[v]; ok {
		return r
	}
	g.errorf("%s: no value for %s (%T)", funcKey(fr.fn), v.Name(), v)
	return g.freshValue(st, "undef", v.Type())
}

func (g *Gen) funcID(fn *ssa.Function) string {
	return g.strConst("func:" + funcKey(fn))
}

func (g *Gen) globalFacts(st *State, name string, t types.Type) {
	if g.globalsSeen[name] {
		return
	}
	g.globalsSeen[name] = true
	// package-level error variables: non-nil, pairwise distinct (assumption, listed)
	if types.Identical(t, types.Universe.Lookup("error").Type()) {
		tag := g.compTerm(g.entry, "V|"+name+"|#tag", sInt)
		val := g.compTerm(g.entry, "V|"+name+"|#val", sInt)
		id := 500000 + len(g.globalsSeen)
		g.extraAxioms = append(g.extraAxioms, fmt.Sprintf("(> %s 0)", tag), fmt.Sprintf("(= %s %d)", val, id))
		if i := strings.LastIndex(name, "."); i > 0 && !strings.Contains(name[:i], ".") {
			// standard-library sentinels (io.EOF, ...) are made by errors.New: dynamic type *errors.errorString
			k := "*errors.errorString"
			if _, ok := g.typeIDs[k]; !ok {
				g.typeIDs[k] = len(g.typeIDs) + 1
			}
			g.extraAxioms = append(g.extraAxioms, fmt.Sprintf("(= %s %d)", tag, g.typeIDs[k]))
		}
		g.note("package-level error variables are non-nil, pairwise distinct and never reassigned")
	}
}

func (g *Gen) constVal(c *ssa.Const) *Value {
	t := c.Type()
	if c.Value == nil {
		if _, ok := t.(*types.Tuple); ok {
			return &Value{T: t}
		}
		return g.zeroValue(t)
	}
	switch c.Value.Kind() {
	case constant.Bool:
		if constant.BoolVal(c.Value) {
			return &Value{T: t, L: []string{"true"}}
		}
		return &Value{T: t, L: []string{"false"}}
	case constant.Int:
		if isFloatType(t) {
			return &Value{T: t, L: []string{g.strConst("float:" + c.Value.ExactString())}}
		}
		return &Value{T: t, L: []string{smtNum(c.Value.ExactString())}}
	case constant.String:
		return &Value{T: t, L: []string{g.strConst(constant.StringVal(c.Value))}}
	case constant.Float, constant.Complex:
		return &Value{T: t, L: []string{g.strConst("float:" + c.Value.ExactString())}}
	}
	return g.zeroValue(t)
}

// lvOf returns the address denoted by pointer value p (of type *T).
func (g *Gen) lvOf(fr *frame, st *State, p *Value) *LValue {
	if p.LV != nil {
		return p.LV
	}
	pt, ok := types.Unalias(p.T).Underlying().(*types.Pointer)
	if !ok {
		g.errorf("lvOf: not a pointer: %s", typeStr(p))
		return &LValue{Kind: lvBox, Obj: "0", Root: types.Typ[types.Int], T: types.Typ[types.Int]}
	}
	elem := pt.Elem()
	if len(p.L) == 1 {
		if tlv := g.tokenLV(p.L[0]); tlv != nil {
			return tlv
		}
	}
	if _, isStruct := types.Unalias(elem).Underlying().(*types.Struct); isStruct && !g.W.shapes.opaque[typeKey(elem)] {
		return &LValue{Kind: lvHeap, Obj: p.term(), Root: elem, T: elem}
	}
	return &LValue{Kind: lvBox, Obj: p.term(), Root: elem, T: elem}
}

func (g *Gen) isHeapLV(lv *LValue) bool {
	return lv.Kind == lvHeap || lv.Kind == lvBox || lv.Kind == lvElem
}

// ---------------------------------------------------------------------------
// instructions

func (g *Gen) execInstr(fr *frame, st *State, in ssa.Instruction) {
	switch i := in.(type) {
	case *ssa.Alloc:
		t := i.Type().(*types.Pointer).Elem()
		if i.Heap && !privateLocal(i) {
			o := g.newObject(st)
			pv := &Value{T: i.Type(), L: []string{o}}
			if at, ok := types.Unalias(t).Underlying().(*types.Array); ok && g.W.shapes.shape(t)[0].Kind != "arr" {
				// array of composite elements: lives in the element components, zero initialised
				for _, l := range g.W.shapes.shape(at.Elem()) {
					key := g.elemCompKey(at.Elem(), l.Path)
					srt := arrSort(sInt, arrSort(sInt, l.Sort))
					c := g.compTerm(st, key, srt)
					g.setComp(st, key, srt, smtSto(c, o, fmt.Sprintf("((as const (Array Int %s)) %s)", l.Sort, zeroTerm(l.Sort))))
					g.logWrite(key, o)
				}
				fr.regs[i] = pv
				return
			}
			lv := g.lvOf(fr, st, pv)
			g.store(st, lv, g.zeroValue(t))
			fr.regs[i] = pv
			if i.Comment != "" && i.Comment != "new" && i.Comment != "complit" {
				if fr.heapLocals == nil {
					fr.heapLocals = map[string]*LValue{}
				}
				fr.heapLocals[i.Comment] = lv
			}

		} else {
			st.cells[i] = g.zeroValue(t).L
			if g.dry > 0 {
				g.wCells[i] = true
			}
			fr.regs[i] = &Value{T: i.Type(), L: []string{"?cell"}, LV: &LValue{Kind: lvCell, Cell: i, Root: t, T: t}}
		}
	case *ssa.Store:
		p := g.val(fr, st, i.Addr)
		lv := g.lvOf(fr, st, p)
		if g.isHeapLV(lv) {
			g.guard(fr, st, "nil", "*"+exprOr(fr.text[i.Addr], i.Addr.Name()), "(not (= "+nilTermOf(lv)+" 0))")
		}
		v := g.val(fr, st, i.Val)
		if v.LV != nil && len(v.L) == 1 && strings.HasPrefix(v.L[0], "?") {
			mv, ok := g.materialize(v)
			if !ok {
				g.errorf("%s: address %s stored to memory (unsupported)", funcKey(fr.fn), exprOr(fr.text[i.Val], i.Val.Name()))
				return
			}
			v = mv
		}
		g.store(st, lv, v)
	case *ssa.UnOp:
		g.unop(fr, st, i)
	case *ssa.BinOp:
		fr.regs[i] = g.binop(fr, st, i.Op, g.val(fr, st, i.X), g.val(fr, st, i.Y), i.Type(), exprOr(fr.text[i], i.Name()))
	case *ssa.FieldAddr:
		x := g.val(fr, st, i.X)
		base := g.lvOf(fr, st, x)
		stt := types.Unalias(i.X.Type()).Underlying().(*types.Pointer).Elem()
		sv := types.Unalias(stt).Underlying().(*types.Struct)
		f := sv.Field(i.Field)
		if g.isHeapLV(base) {
			g.guard(fr, st, "nil", exprOr(fr.text[i.X], i.X.Name())+"."+f.Name(), "(not (= "+nilTermOf(base)+" 0))")
		}
		nlv := *base
		nlv.Path = base.Path + "." + f.Name()
		nlv.T = f.Type()
		if base.ArrIdx != "" {
			g.errorf("%s: field of array element lvalue unsupported", funcKey(fr.fn))
		}
		fr.regs[i] = &Value{T: i.Type(), L: []string{"?field"}, LV: &nlv}
	case *ssa.Field:
		x := g.val(fr, st, i.X)
		sv := types.Unalias(i.X.Type()).Underlying().(*types.Struct)
		f := sv.Field(i.Field)
		s, e := g.W.shapes.subRange(i.X.Type(), "."+f.Name())
		fr.regs[i] = &Value{T: f.Type(), L: x.L[s:e]}
	case *ssa.IndexAddr:
		g.indexAddr(fr, st, i)
	case *ssa.Index:
		x := g.val(fr, st, i.X)
		idx := g.val(fr, st, i.Index).term()
		switch u := types.Unalias(i.X.Type()).Underlying().(type) {
		case *types.Array:
			g.guard(fr, st, "index", exprOr(fr.text[i], i.Name()), fmt.Sprintf("(and (<= 0 %s) (< %s %d))", idx, idx, u.Len()))
			sh := g.W.shapes.shape(i.X.Type())
			if len(sh) == 1 && sh[0].Kind == "arr" {
				v := &Value{T: u.Elem(), L: []string{smtSel(x.term(), idx)}}
				g.facts(st, v)
				fr.regs[i] = v
			} else {
				fr.regs[i] = g.freshValue(st, "idx", i.Type())
			}
		default:
			// string index
			g.guard(fr, st, "index", exprOr(fr.text[i], i.Name()), fmt.Sprintf("(and (<= 0 %s) (< %s (strlen %s)))", idx, idx, x.term()))
			g.decl("(declare-fun strat (Int Int) Int)")
			v := &Value{T: i.Type(), L: []string{"(strat " + x.term() + " " + idx + ")"}}
			g.facts(st, v)
			fr.regs[i] = v
		}
	case *ssa.Slice:
		g.sliceOp(fr, st, i)
	case *ssa.Call:
		r := g.call(fr, st, i, i.Common(), i.Type())
		if r != nil {
			fr.regs[i] = r
		}
	case *ssa.Extract:
		t := g.val(fr, st, i.Tuple)
		if t.Tup == nil || i.Index >= len(t.Tup) {
			g.errorf("%s: extract from non-tuple %s", funcKey(fr.fn), i.Tuple.Name())
			fr.regs[i] = g.freshValue(st, "x", i.Type())
			return
		}
		fr.regs[i] = t.Tup[i.Index]
	case *ssa.MakeInterface:
		fr.regs[i] = g.makeInterface(fr, st, g.val(fr, st, i.X), i.X.Type(), i.Type())
	case *ssa.ChangeInterface:
		x := g.val(fr, st, i.X)
		fr.regs[i] = &Value{T: i.Type(), L: x.L}
	case *ssa.ChangeType:
		x := g.val(fr, st, i.X)
		nv := *x
		nv.T = i.Type()
		fr.regs[i] = &nv
	case *ssa.Convert:
		fr.regs[i] = g.convert(fr, st, g.val(fr, st, i.X), i.X.Type(), i.Type())
	case *ssa.TypeAssert:
		g.typeAssert(fr, st, i)
	case *ssa.MakeSlice:
		ln := g.val(fr, st, i.Len).term()
		cp := g.val(fr, st, i.Cap).term()
		g.guard(fr, st, "makeslice", exprOr(fr.text[i], "make"), fmt.Sprintf("(and (<= 0 %s) (<= %s %s))", ln, ln, cp))
		g.makeBound(fr, st, i, ln)
		o := g.newObject(st)
		et := types.Unalias(i.Type()).Underlying().(*types.Slice).Elem()
		// zero contents
		for _, l := range g.W.shapes.shape(et) {
			key := g.elemCompKey(et, l.Path)
			srt := arrSort(sInt, arrSort(sInt, l.Sort))
			c := g.compTerm(st, key, srt)
			g.setComp(st, key, srt, smtSto(c, o, fmt.Sprintf("((as const (Array Int %s)) %s)", l.Sort, zeroTerm(l.Sort))))
			g.logWrite(key, o)
		}
		fr.regs[i] = &Value{T: i.Type(), L: []string{o, "0", ln, cp}}
	case *ssa.MakeMap:
		o := g.newObject(st)
		g.mapInit(st, i.Type(), o)
		fr.regs[i] = &Value{T: i.Type(), L: []string{o}}
	case *ssa.MakeChan:
		o := g.newObject(st)
		fr.regs[i] = &Value{T: i.Type(), L: []string{o}}
	case *ssa.MakeClosure:
		fn := i.Fn.(*ssa.Function)
		var bs []*Value
		for _, b := range i.Bindings {
			bs = append(bs, g.val(fr, st, b))
		}
		fr.regs[i] = &Value{T: i.Type(), L: []string{g.funcID(fn)}, Fn: &FuncVal{Fn: fn, Bindings: bs}}
	case *ssa.MapUpdate:
		g.mapUpdate(fr, st, i)
	case *ssa.Lookup:
		g.lookup(fr, st, i)
	case *ssa.Range:
		g.rangeInit(fr, st, i)
	case *ssa.Next:
		g.rangeNext(fr, st, i)
	case *ssa.Phi:
		// only for && / ||: value depends on which predecessor was taken; model as fresh constrained by edges
		g.phi(fr, st, i)
	case *ssa.Defer:
		var args []*Value
		for _, a := range i.Call.Args {
			args = append(args, g.val(fr, st, a))
		}
		var fnv *Value
		if !i.Call.IsInvoke() {
			fnv = g.val(fr, st, i.Call.Value)
		} else {
			fnv = g.val(fr, st, i.Call.Value)
		}
		fr.defers = append(fr.defers, &deferRec{instr: i, args: args, fnv: fnv, armed: st.reach})
	case *ssa.RunDefers:
		for k := len(fr.defers) - 1; k >= 0; k-- {
			d := fr.defers[k]
			g.runDefer(fr, st, d)
		}
	case *ssa.Go:
		g.note("go statement treated as an opaque event: " + shortFuncName(fr.fn))
	case *ssa.Send:
		g.send(fr, st, i)
	case *ssa.Select:
		g.selectOp(fr, st, i)
	default:
		g.errorf("%s: unsupported instruction %T: %v", funcKey(fr.fn), in, in)
		if v, ok := in.(ssa.Value); ok {
			fr.regs[v] = g.freshValue(st, "unsup", v.Type())
		}
	}
}

func (g *Gen) phi(fr *frame, st *State, i *ssa.Phi) {
	// Phi occurs for && and || in naive form. Edges[k] comes from Block().Preds[k].
	// Without per-edge information here we reconstruct: value is fresh, constrained when the edge value is a constant.
	b := i.Block()
	x := g.fresh("phi", leafSortOrInt(g, i.Type()))
	v := &Value{T: i.Type(), L: []string{x}}
	conds := g.phiConds[b]
	if conds != nil && len(conds) == len(i.Edges) {
		for k, e := range i.Edges {
			ev := g.val(fr, st, e)
			g.addCons(smtImp(conds[k], smtEq(x, ev.term())))
		}
	} else if g.dry == 0 {
		g.errorf("%s: phi without edge conditions in block %d", funcKey(fr.fn), b.Index)
	}
	g.facts(st, v)
	fr.regs[i] = v
}

func leafSortOrInt(g *Gen, t types.Type) string {
	sh := g.W.shapes.shape(t)
	if len(sh) == 1 {
		return sh[0].Sort
	}
	return sInt
}

func (g *Gen) unop(fr *frame, st *State, i *ssa.UnOp) {
	switch i.Op {
	case token.MUL:
		p := g.val(fr, st, i.X)
		lv := g.lvOf(fr, st, p)
		if g.isHeapLV(lv) {
			g.guard(fr, st, "nil", "*"+exprOr(fr.text[i.X], i.X.Name()), "(not (= "+nilTermOf(lv)+" 0))")
		}
		v := g.load(st, lv)
		if lv.Kind != lvCell {
			g.allocBound(st, v)
		}
		fr.regs[i] = v
	case token.NOT:
		fr.regs[i] = &Value{T: i.Type(), L: []string{smtNot(g.val(fr, st, i.X).term())}}
	case token.SUB:
		x := g.val(fr, st, i.X).term()
		fr.regs[i] = g.wrap(st, i.Type(), "(- "+x+")")
	case token.XOR:
		x := g.val(fr, st, i.X).term()
		_, hi, _, signed, _ := intRange(i.Type())
		if signed {
			fr.regs[i] = g.wrap(st, i.Type(), "(- (- "+x+") 1)")
		} else {
			fr.regs[i] = &Value{T: i.Type(), L: []string{"(- " + hi + " " + x + ")"}}
		}
	case token.ARROW:
		// channel receive: opaque fresh value
		g.note("channel receive yields an arbitrary value")
		if i.CommaOk {
			fr.regs[i] = &Value{T: i.Type(), Tup: []*Value{g.freshValue(st, "recv", i.Type().(*types.Tuple).At(0).Type()), g.freshValue(st, "recvok", types.Typ[types.Bool])}}
		} else {
			fr.regs[i] = g.freshValue(st, "recv", i.Type())
		}
	default:
		g.errorf("%s: unsupported unary op %s", funcKey(fr.fn), i.Op)
		fr.regs[i] = g.freshValue(st, "unop", i.Type())
	}
}

// wrap returns x reduced into the range of integer type t.
func (g *Gen) wrap(st *State, t types.Type, x string) *Value {
	lo, hi, mod, _, ok := intRange(t)
	if !ok {
		return &Value{T: t, L: []string{x}}
	}
	if isLiteral(x) {
		return &Value{T: t, L: []string{x}}
	}
	k := g.fresh("k", sInt)
	r := g.fresh("w", sInt)
	g.addCons(fmt.Sprintf("(and (= %s (- %s (* %s %s))) (<= %s %s) (<= %s %s))", r, x, k, mod, lo, r, r, hi))
	return &Value{T: t, L: []string{r}}
}

func pow2(n int64) string {
	s := "1"
	// big shifts as decimal via repeated doubling on strings is overkill; use math/big
	return bigPow2(n, s)
}

func (g *Gen) binop(fr *frame, st *State, op token.Token, x, y *Value, rt types.Type, what string) *Value {
	switch op {
	case token.EQL:
		return &Value{T: rt, L: []string{g.valuesEqual(x, y)}}
	case token.NEQ:
		return &Value{T: rt, L: []string{smtNot(g.valuesEqual(x, y))}}
	}
	if isStringType(x.T) {
		g.decl("(declare-fun strcat (Int Int) Int)")
		g.decl("(declare-fun strlt (Int Int) Bool)")
		a, b := x.term(), y.term()
		switch op {
		case token.ADD:
			r := "(strcat " + a + " " + b + ")"
			g.addCons(fmt.Sprintf("(and (<= 0 %s) (= (strlen %s) (+ (strlen %s) (strlen %s))))", r, r, a, b))
			return &Value{T: rt, L: []string{r}}
		case token.LSS:
			return &Value{T: rt, L: []string{"(strlt " + a + " " + b + ")"}}
		case token.GTR:
			return &Value{T: rt, L: []string{"(strlt " + b + " " + a + ")"}}
		case token.LEQ:
			return &Value{T: rt, L: []string{smtNot("(strlt " + b + " " + a + ")")}}
		case token.GEQ:
			return &Value{T: rt, L: []string{smtNot("(strlt " + a + " " + b + ")")}}
		}
	}
	if isFloatType(x.T) {
		g.note("floating point arithmetic is opaque")
		return g.freshValue(st, "float", rt)
	}
	a, b := x.term(), y.term()
	switch op {
	case token.ADD:
		return g.wrap(st, rt, "(+ "+a+" "+b+")")
	case token.SUB:
		return g.wrap(st, rt, "(- "+a+" "+b+")")
	case token.MUL:
		return g.wrap(st, rt, "(* "+a+" "+b+")")
	case token.QUO, token.REM:
		g.guard(fr, st, "div", what, "(not (= "+b+" 0))")
		if isLiteral(b) && !strings.HasPrefix(b, "(-") && b != "0" {
			_, _, _, signed, _ := intRange(rt)
			if !signed {
				if op == token.QUO {
					return &Value{T: rt, L: []string{"(div " + a + " " + b + ")"}}
				}
				return &Value{T: rt, L: []string{"(mod " + a + " " + b + ")"}}
			}
		}
		q := g.fresh("q", sInt)
		r := g.fresh("r", sInt)
		g.addCons(fmt.Sprintf("(=> (not (= %s 0)) (and (= %s (+ (* %s %s) %s)) (< (abs %s) (abs %s)) (or (= %s 0) (= (>= %s 0) (>= %s 0)))))", b, a, b, q, r, r, b, r, r, a))
		if op == token.QUO {
			return g.wrap(st, rt, q)
		}
		return &Value{T: rt, L: []string{r}}
	case token.LSS:
		return &Value{T: rt, L: []string{"(< " + a + " " + b + ")"}}
	case token.LEQ:
		return &Value{T: rt, L: []string{"(<= " + a + " " + b + ")"}}
	case token.GTR:
		return &Value{T: rt, L: []string{"(> " + a + " " + b + ")"}}
	case token.GEQ:
		return &Value{T: rt, L: []string{"(>= " + a + " " + b + ")"}}
	case token.LAND:
		if isBoolType(rt) {
			return &Value{T: rt, L: []string{smtAnd(a, b)}}
		}
	case token.LOR:
		if isBoolType(rt) {
			return &Value{T: rt, L: []string{smtOr(a, b)}}
		}
	}
	// bit operations
	return g.bitop(fr, st, op, x, y, rt, what)
}

func (g *Gen) bitop(fr *frame, st *State, op token.Token, x, y *Value, rt types.Type, what string) *Value {
	a, b := x.term(), y.term()
	_, _, _, signed, _ := intRange(rt)
	litVal := func(s string) (int64, bool) {
		if !isLiteral(s) || strings.HasPrefix(s, "(") {
			return 0, false
		}
		var n int64
		if _, err := fmt.Sscan(s, &n); err != nil {
			return 0, false
		}
		return n, true
	}
	switch op {
	case token.SHL:
		if n, ok := litVal(b); ok && n < 64 {
			if x.Bits > 0 && !signed && x.Bits+int(n) <= intBits(rt) {
				// no bit is shifted out: exact
				return &Value{T: rt, L: []string{"(* " + a + " " + bigPow2(n, "") + ")"}, Bits: x.Bits + int(n), LowZ: x.LowZ + int(n)}
			}
			return g.wrap(st, rt, "(* "+a+" "+bigPow2(n, "")+")")
		}
		g.decl("(declare-fun pow2 (Int) Int)")
		g.pow2Axioms()
		return g.wrap(st, rt, "(* "+a+" (pow2 "+b+"))")
	case token.SHR:
		if n, ok := litVal(b); ok && n < 64 {
			return &Value{T: rt, L: []string{"(div " + a + " " + bigPow2(n, "") + ")"}}
		}
		g.decl("(declare-fun pow2 (Int) Int)")
		g.pow2Axioms()
		return &Value{T: rt, L: []string{"(div " + a + " (pow2 " + b + "))"}}
	case token.OR:
		// operands occupying disjoint bit ranges: or is addition
		if !signed && x.Bits > 0 && y.Bits > 0 && (x.LowZ >= y.Bits || y.LowZ >= x.Bits) {
			bits, lowz := x.Bits, x.LowZ
			if y.Bits > bits {
				bits = y.Bits
			}
			if y.LowZ < lowz {
				lowz = y.LowZ
			}
			return &Value{T: rt, L: []string{"(+ " + a + " " + b + ")"}, Bits: bits, LowZ: lowz}
		}
	case token.AND:
		// x & (2^k - 1) is x mod 2^k (SMT mod is non-negative; in two's complement this also holds for negative x)
		if n, ok := litVal(b); ok && n >= 0 && (n&(n+1)) == 0 {
			return &Value{T: rt, L: []string{"(mod " + a + " " + fmt.Sprint(n+1) + ")"}}
		}
		if n, ok := litVal(a); ok && n >= 0 && (n&(n+1)) == 0 {
			return &Value{T: rt, L: []string{"(mod " + b + " " + fmt.Sprint(n+1) + ")"}}
		}
	}
	if bt, ok := types.Unalias(rt).Underlying().(*types.Basic); ok && bt.Kind() == types.Uint8 && (op == token.AND || op == token.OR || op == token.XOR || op == token.AND_NOT) {
		// 8-bit operands: exact, bit by bit
		var terms []string
		for k := 0; k < 8; k++ {
			ak := fmt.Sprintf("(= (mod (div %s %d) 2) 1)", a, 1<<uint(k))
			bk := fmt.Sprintf("(= (mod (div %s %d) 2) 1)", b, 1<<uint(k))
			var c string
			switch op {
			case token.AND:
				c = smtAnd(ak, bk)
			case token.OR:
				c = smtOr(ak, bk)
			case token.XOR:
				c = "(xor " + ak + " " + bk + ")"
			case token.AND_NOT:
				c = smtAnd(ak, smtNot(bk))
			}
			terms = append(terms, fmt.Sprintf("(ite %s %d 0)", c, 1<<uint(k)))
		}
		r := g.fresh("bits8", sInt)
		g.addCons(fmt.Sprintf("(= %s (+ %s))", r, strings.Join(terms, " ")))
		return &Value{T: rt, L: []string{r}}
	}
	name := map[token.Token]string{token.AND: "bitand", token.OR: "bitor", token.XOR: "bitxor", token.AND_NOT: "bitandnot", token.SHL: "shl", token.SHR: "shr"}[op]
	if name == "" {
		g.errorf("%s: unsupported binary op %s", funcKey(fr.fn), op)
		return g.freshValue(st, "binop", rt)
	}
	g.decl(fmt.Sprintf("(declare-fun %s (Int Int) Int)", name))
	g.note("bitwise " + name + " on non-constant operands is an uninterpreted function (only its range is known)")
	v := &Value{T: rt, L: []string{"(" + name + " " + a + " " + b + ")"}}
	g.facts(st, v)
	if !signed && (op == token.AND) {
		g.addCons(fmt.Sprintf("(and (<= %s %s) (<= %s %s))", v.L[0], a, v.L[0], b))
	}
	if !signed && (op == token.OR) {
		g.addCons(fmt.Sprintf("(and (>= %s %s) (>= %s %s))", v.L[0], a, v.L[0], b))
	}
	return v
}

func (g *Gen) pow2Axioms() {
	if g.axiomsDone["pow2"] {
		return
	}
	g.axiomsDone["pow2"] = true
	var cs []string
	for n := int64(0); n <= 64; n++ {
		cs = append(cs, fmt.Sprintf("(= (pow2 %d) %s)", n, bigPow2(n, "")))
	}
	g.extraAxioms = append(g.extraAxioms, smtAnd(cs...))
}

func (g *Gen) valuesEqual(x, y *Value) string {
	// nil comparisons on slices: only the object id matters
	if x.T != nil {
		if _, ok := types.Unalias(x.T).Underlying().(*types.Slice); ok && len(x.L) == 4 && len(y.L) == 4 {
			return smtEq(x.L[0], y.L[0])
		}
	}
	if len(x.L) != len(y.L) {
		// comparison of interface with concrete etc. is not generated by ssa (MakeInterface is explicit)
		g.errorf("equality between values of %d and %d leaves (%s vs %s)", len(x.L), len(y.L), typeStr(x), typeStr(y))
		return g.fresh("eq", sBool)
	}
	var cs []string
	for i := range x.L {
		if strings.HasPrefix(x.L[i], "?") || strings.HasPrefix(y.L[i], "?") {
			g.errorf("equality on a statically-known address")
			return g.fresh("eq", sBool)
		}
		cs = append(cs, smtEq(x.L[i], y.L[i]))
	}
	return smtAnd(cs...)
}

func (g *Gen) indexAddr(fr *frame, st *State, i *ssa.IndexAddr) {
	x := g.val(fr, st, i.X)
	idx := g.val(fr, st, i.Index).term()
	what := exprOr(fr.text[i], exprOr(fr.text[i.X], i.X.Name())+"["+exprOr(fr.text[i.Index], i.Index.Name())+"]")
	switch u := types.Unalias(i.X.Type()).Underlying().(type) {
	case *types.Slice:
		g.guard(fr, st, "index", what, fmt.Sprintf("(and (<= 0 %s) (< %s %s))", idx, idx, x.L[2]))
		et := u.Elem()
		fr.regs[i] = &Value{T: i.Type(), L: []string{"?elem"}, LV: &LValue{Kind: lvElem, Obj: x.L[0], Idx: plus(x.L[1], idx), Root: et, T: et}}
	case *types.Pointer:
		arr := types.Unalias(u.Elem()).Underlying().(*types.Array)
		base := g.lvOf(fr, st, x)
		if g.isHeapLV(base) {
			g.guard(fr, st, "nil", what, "(not (= "+nilTermOf(base)+" 0))")
		}
		g.guard(fr, st, "index", what, fmt.Sprintf("(and (<= 0 %s) (< %s %d))", idx, idx, arr.Len()))
		sh := g.W.shapes.shape(u.Elem())
		if base.Kind == lvBox && base.Path == "" && !(len(sh) == 1 && sh[0].Kind == "arr") {
			// heap array of composite elements
			fr.regs[i] = &Value{T: i.Type(), L: []string{"?elem"}, LV: &LValue{Kind: lvElem, Obj: base.Obj, Idx: idx, Root: arr.Elem(), T: arr.Elem()}}
		} else if len(sh) == 1 && sh[0].Kind == "arr" {
			if base.Kind == lvBox && base.Path == "" {
				// heap array object: lives in the element component
				fr.regs[i] = &Value{T: i.Type(), L: []string{"?elem"}, LV: &LValue{Kind: lvElem, Obj: base.Obj, Idx: idx, Root: arr.Elem(), T: arr.Elem()}}
			} else {
				nlv := *base
				nlv.ArrIdx = idx
				fr.regs[i] = &Value{T: i.Type(), L: []string{"?arrelem"}, LV: &nlv}
			}
		} else {
			// array of composite elements stored inside a struct or cell: reads yield arbitrary values
			// (the element is modelled as an unconstrained object); writes are not tracked
			g.note("elements of arrays of structs embedded in structs read as arbitrary values: " + what)
			o := g.fresh("anyelem", sInt)
			g.addCons("(> " + o + " 0)")
			fr.regs[i] = &Value{T: i.Type(), L: []string{"?elem"}, LV: &LValue{Kind: lvBox, Obj: o, Root: arr.Elem(), T: arr.Elem()}}
		}
	default:
		g.errorf("%s: IndexAddr on %s", funcKey(fr.fn), i.X.Type())
	}
}

func plus(a, b string) string {
	if a == "0" {
		return b
	}
	if b == "0" {
		return a
	}
	// off + (j - off) = j  (absolute positions introduced by quantifier anchoring)
	if strings.HasPrefix(b, "(- ") && strings.HasSuffix(b, " "+a+")") {
		return b[3 : len(b)-len(a)-2]
	}
	return "(+ " + a + " " + b + ")"
}
func minus(a, b string) string {
	if b == "0" {
		return a
	}
	return "(- " + a + " " + b + ")"
}

func (g *Gen) sliceOp(fr *frame, st *State, i *ssa.Slice) {
	x := g.val(fr, st, i.X)
	what := exprOr(fr.text[i], i.Name())
	lo := "0"
	if i.Low != nil {
		lo = g.val(fr, st, i.Low).term()
	}
	switch u := types.Unalias(i.X.Type()).Underlying().(type) {
	case *types.Slice:
		hi := x.L[2]
		if i.High != nil {
			hi = g.val(fr, st, i.High).term()
		}
		mx := x.L[3]
		if i.Max != nil {
			mx = g.val(fr, st, i.Max).term()
			g.guard(fr, st, "slice", what, fmt.Sprintf("(and (<= 0 %s) (<= %s %s) (<= %s %s) (<= %s %s))", lo, lo, hi, hi, mx, mx, x.L[3]))
		} else {
			g.guard(fr, st, "slice", what, fmt.Sprintf("(and (<= 0 %s) (<= %s %s) (<= %s %s))", lo, lo, hi, hi, x.L[3]))
		}
		fr.regs[i] = &Value{T: i.Type(), L: []string{x.L[0], plus(x.L[1], lo), minus(hi, lo), minus(mx, lo)}}
	case *types.Basic: // string
		hi := "(strlen " + x.term() + ")"
		if i.High != nil {
			hi = g.val(fr, st, i.High).term()
		}
		g.guard(fr, st, "slice", what, fmt.Sprintf("(and (<= 0 %s) (<= %s %s) (<= %s (strlen %s)))", lo, lo, hi, hi, x.term()))
		g.decl("(declare-fun substr (Int Int Int) Int)")
		r := fmt.Sprintf("(substr %s %s %s)", x.term(), lo, hi)
		g.addCons(fmt.Sprintf("(and (<= 0 %s) (= (strlen %s) (- %s %s)))", r, r, hi, lo))
		fr.regs[i] = &Value{T: i.Type(), L: []string{r}}
	case *types.Pointer: // pointer to array
		arr := types.Unalias(u.Elem()).Underlying().(*types.Array)
		n := fmt.Sprint(arr.Len())
		hi := n
		if i.High != nil {
			hi = g.val(fr, st, i.High).term()
		}
		g.guard(fr, st, "slice", what, fmt.Sprintf("(and (<= 0 %s) (<= %s %s) (<= %s %s))", lo, lo, hi, hi, n))
		base := g.lvOf(fr, st, x)
		sh := g.W.shapes.shape(u.Elem())
		if base.Kind == lvBox && base.Path == "" {
			fr.regs[i] = &Value{T: i.Type(), L: []string{base.Obj, lo, minus(hi, lo), minus(n, lo)}}
			return
		}
		// array stored inside a struct / cell: the slice is a copy (abstraction, noted)
		g.note("slicing an array field yields a copy of its contents (aliasing with the field is not modelled)")
		o := g.newObject(st)
		if len(sh) == 1 && sh[0].Kind == "arr" {
			cur := g.load(st, base)
			et := arr.Elem()
			key := g.elemCompKey(et, "")
			srt := arrSort(sInt, arrSort(sInt, g.W.shapes.shape(et)[0].Sort))
			c := g.compTerm(st, key, srt)
			g.setComp(st, key, srt, smtSto(c, o, cur.term()))
			g.logWrite(key, o)
		}
		fr.regs[i] = &Value{T: i.Type(), L: []string{o, lo, minus(hi, lo), minus(n, lo)}}
	default:
		g.errorf("%s: Slice on %s", funcKey(fr.fn), i.X.Type())
		fr.regs[i] = g.freshValue(st, "slice", i.Type())
	}
}

func (g *Gen) makeInterface(fr *frame, st *State, x *Value, xt types.Type, it types.Type) *Value {
	tag := g.typeID(xt)
	sh := g.W.shapes.shape(xt)
	if len(sh) == 1 && sh[0].Sort == sInt && !strings.HasPrefix(x.L[0], "?") {
		return &Value{T: it, L: []string{tag, x.L[0]}, Dyn: xt}
	}
	if len(sh) == 0 {
		return &Value{T: it, L: []string{tag, "0"}, Dyn: xt}
	}
	if x.LV != nil && strings.HasPrefix(x.L[0], "?") {
		// an address (of a field, element or local) boxed into an interface: its opaque identity (see materialize);
		// whoever receives it is opaque or trusted, so the link back to the field is carried by that contract's modifies
		if mv, ok := g.materialize(x); ok {
			return &Value{T: it, L: []string{tag, mv.L[0]}, Dyn: xt}
		}
		g.errorf("%s: interior pointer boxed into interface (unsupported)", funcKey(fr.fn))
		return g.freshValue(st, "iface", it)
	}
	// box the value
	o := g.newObject(st)
	lv := &LValue{Kind: lvBox, Obj: o, Root: xt, T: xt}
	g.store(st, lv, x)
	return &Value{T: it, L: []string{tag, o}, Dyn: xt}
}

func (g *Gen) unbox(st *State, iv *Value, t types.Type) *Value {
	sh := g.W.shapes.shape(t)
	if len(sh) == 1 && sh[0].Sort == sInt {
		v := &Value{T: t, L: []string{iv.L[1]}}
		return v
	}
	if len(sh) == 0 {
		return &Value{T: t}
	}
	lv := &LValue{Kind: lvBox, Obj: iv.L[1], Root: t, T: t}
	return g.load(st, lv)
}

func (g *Gen) typeAssert(fr *frame, st *State, i *ssa.TypeAssert) {
	x := g.val(fr, st, i.X)
	var ok string
	var v *Value
	if types.IsInterface(i.AssertedType) {
		ok = smtAnd("(not (= "+x.L[0]+" 0))", "(implements "+x.L[0]+" "+g.typeID(i.AssertedType)+")")
		v = &Value{T: i.AssertedType, L: x.L}
	} else {
		ok = smtEq(x.L[0], g.typeID(i.AssertedType))
		v = g.unbox(st, x, i.AssertedType)
		g.facts(st, v)
		g.allocBound(st, v)
	}
	if i.CommaOk {
		// on failure the value is the zero value
		z := g.zeroValue(i.AssertedType)
		if types.IsInterface(i.AssertedType) {
			z = &Value{T: i.AssertedType, L: []string{"0", "0"}}
		}
		r := &Value{T: i.AssertedType, L: make([]string, len(v.L))}
		for k := range v.L {
			r.L[k] = smtIte(ok, v.L[k], z.L[k])
		}
		fr.regs[i] = &Value{T: i.Type(), Tup: []*Value{r, {T: types.Typ[types.Bool], L: []string{ok}}}}
		return
	}
	g.guard(fr, st, "typeassert", exprOr(fr.text[i], i.Name()), ok)
	fr.regs[i] = v
}

func (g *Gen) convert(fr *frame, st *State, x *Value, from, to types.Type) *Value {
	switch {
	case isIntType(from) && isIntType(to):
		if flo, fhi, _, fsigned, ok := intRange(from); ok && !fsigned {
			if tlo, thi, _, _, ok2 := intRange(to); ok2 && bigLE(tlo, flo) && bigLE(fhi, thi) {
				// widening of an unsigned value: same number; remember how many bits it can occupy
				bits := x.Bits
				if bits == 0 {
					bits = intBits(from)
				}
				return &Value{T: to, L: x.L, Bits: bits, LowZ: x.LowZ}
			}
		}
		if _, _, fmodS, fsigned, ok := intRange(from); ok && !fsigned {
			if _, _, tmod, tsigned, ok2 := intRange(to); ok2 && !tsigned && fmodS != tmod {
				// narrowing of an unsigned value: the low bits. For a shifted operand (div A P) the quotient chain is
				// made explicit so that byte-wise decompositions stay linear: (div A P) = tmod*(div A (P*tmod)) + r
				t := x.term()
				var num, den string
				if parts := splitSexp(t); len(parts) == 3 && parts[0] == "div" && isLiteral(parts[2]) {
					num, den = parts[1], parts[2]
				} else {
					num, den = t, "1"
				}
				d, m := new(big.Int), new(big.Int)
				if _, ok := d.SetString(den, 10); ok {
					if _, ok := m.SetString(tmod, 10); ok {
						r := g.fresh("lo", sInt)
						hi := fmt.Sprintf("(div %s %s)", num, new(big.Int).Mul(d, m).String())
						g.addCons(fmt.Sprintf("(and (= %s (+ (* %s %s) %s)) (<= 0 %s) (< %s %s))", t, tmod, hi, r, r, r, tmod))
						return &Value{T: to, L: []string{r}}
					}
				}
			}
		}
		return g.wrap(st, to, x.term())
	case isIntType(from) && isFloatType(to), isFloatType(from):
		g.note("floating point conversion is opaque")
		return g.freshValue(st, "conv", to)
	case isStringType(to):
		if sl, ok := types.Unalias(from).Underlying().(*types.Slice); ok && len(x.L) == 4 {
			_ = sl
			g.decl("(declare-fun str_of_bytes (Int) Int)")
			bv := g.bytesVal(st, x)
			r := "(str_of_bytes " + bv + ")"
			g.addCons(fmt.Sprintf("(and (<= 0 %s) (= (strlen %s) %s))", r, r, x.L[2]))
			return &Value{T: to, L: []string{r}}
		}
		if isStringType(from) {
			return &Value{T: to, L: x.L}
		}
		return g.freshValue(st, "conv", to)
	case isStringType(from):
		if _, ok := types.Unalias(to).Underlying().(*types.Slice); ok {
			// []byte(s): fresh slice with len = strlen and bytesval = bytes_of_str(s)
			g.decl("(declare-fun str_of_bytes (Int) Int)")
			o := g.newObject(st)
			v := &Value{T: to, L: []string{o, "0", "(strlen " + x.term() + ")", "(strlen " + x.term() + ")"}}
			if et := types.Unalias(to).Underlying().(*types.Slice).Elem(); isIntType(et) {
				key := g.elemCompKey(et, "")
				srt := arrSort(sInt, arrSort(sInt, sInt))
				c := g.compTerm(st, key, srt)
				nc := g.fresh("C."+key, srt)
				inner := g.fresh("bytes", sArrI)
				g.addCons(smtEq(nc, smtSto(c, o, inner)))
				g.setComp(st, key, srt, nc)
				g.logWrite(key, o)
				g.addCons(smtEq("(str_of_bytes "+g.bytesVal(st, v)+")", x.term()))
			}
			return v
		}
		return g.freshValue(st, "conv", to)
	}
	// pointer <-> unsafe etc.
	if len(x.L) == len(g.W.shapes.shape(to)) {
		nv := *x
		nv.T = to
		return &nv
	}
	g.note("conversion " + typeKey(from) + " -> " + typeKey(to) + " is opaque")
	return g.freshValue(st, "conv", to)
}

// bytesVal: abstract identity of the byte content of a []byte value in the current heap.
func (g *Gen) bytesVal(st *State, s *Value) string {
	c := g.compTerm(st, g.elemCompKey(types.Typ[types.Uint8], ""), arrSort(sInt, arrSort(sInt, sInt)))
	a := smtSel(c, s.L[0])
	g.bytesFrame(a, s.L[1], s.L[2])
	g.noteBytes(a, s.L[1], s.L[2])
	return fmt.Sprintf("(bytesval %s %s %s)", a, s.L[1], s.L[2])
}

type arrDelta struct{ prev, lo, hi string }

func (g *Gen) noteBytes(a, f, n string) {
	for _, r := range g.bytesSeen[a] {
		if r[0] == f && r[1] == n {
			return
		}
	}
	if len(g.bytesSeen[a]) < 6 {
		g.bytesSeen[a] = append(g.bytesSeen[a], [2]string{f, n})
	}
}

// bytesWrite: object array prev became next by a write confined to [lo,hi). Every range whose content identity was
// mentioned on prev keeps that identity on next when it is disjoint from the written range (forward counterpart of
// bytesFrame, needed when the later mention goes through a merged heap and cannot be traced back syntactically).
func (g *Gen) bytesWrite(prev, next, lo, hi string) {
	for _, r := range g.bytesSeen[prev] {
		f, n := r[0], r[1]
		g.addCons(fmt.Sprintf("(=> (or (<= (+ %s %s) %s) (<= %s %s)) (= (bytesval %s %s %s) (bytesval %s %s %s)))", f, n, lo, hi, f, next, f, n, prev, f, n))
		g.noteBytes(next, f, n)
	}
}

// bytesFrame: the content identity of a range does not depend on writes outside the range. The object array a is
// followed back through its recorded writes (single stores, range-limited havocs, copies); for each step a fact
// "range [f,f+n) disjoint from the written range => same identity before and after" is added.
func (g *Gen) bytesFrame(a, f, n string) {
	for depth := 0; depth < 8; depth++ {
		d, ok := g.arrPrev[a]
		if !ok {
			if strings.HasPrefix(a, "(store ") {
				parts := splitSexp(a)
				if len(parts) == 4 {
					d = arrDelta{parts[1], parts[2], "(+ " + parts[2] + " 1)"}
					ok = true
				}
			}
		}
		if !ok {
			return
		}
		g.addCons(fmt.Sprintf("(=> (or (<= (+ %s %s) %s) (<= %s %s)) (= (bytesval %s %s %s) (bytesval %s %s %s)))", f, n, d.lo, d.hi, f, a, f, n, d.prev, f, n))
		a = d.prev
	}
}

func (g *Gen) makeBound(fr *frame, st *State, i *ssa.MakeSlice, ln string) {
	// unbounded allocation guard: only under panics_never; the bound is 2^32 elements unless the contract says otherwise
	if !g.panicsNever || (g.fc != nil && g.fc.AllocUnbounded) {
		return
	}
	if g.fc != nil && len(g.fc.AllocBound) > 0 && fr.fn == g.fn {
		for _, cl := range g.fc.AllocBound {
			env := &Env{g: g, st: st, old: fr.old, vars: map[string]*Value{}, fr: fr, pkgPath: fr.fn.Pkg.Pkg.Path(), inBody: true, bound: map[string]*Value{"$n": mathVal(ln)}}
			g.addOblig(st, "safety", g.safetyName("allocbound", exprOr(fr.text[i], "make")), env.evalBool(cl.E), "allocation size: "+cl.Src)
		}
		return
	}
	g.addOblig(st, "safety", g.safetyName("makebound", exprOr(fr.text[i], "make")), fmt.Sprintf("(<= %s %d)", ln, g.W.maxMake()), "allocation size bounded")
}

func (w *World) maxMake() int64 { return 1 << 26 }

// setPhiConds records, per predecessor of b (in Preds order), the condition under which b is entered from it.
func (g *Gen) setPhiConds(b *ssa.BasicBlock, edges []inEdge) {
	conds := make([]string, len(b.Preds))
	for i, p := range b.Preds {
		var cs []string
		for _, e := range edges {
			if e.from == p {
				cs = append(cs, e.cond)
			}
		}
		conds[i] = smtOr(cs...)
	}
	g.phiConds[b] = conds
}

// privateLocal: a named local that lives on the heap only because closures of this function capture it
// (it is never passed anywhere else), so no callee other than those closures can reach it.
func privateLocal(a *ssa.Alloc) bool {
	if !a.Heap || a.Comment == "" || a.Comment == "new" || a.Comment == "complit" || a.Referrers() == nil {
		return false
	}
	if _, isArr := a.Type().(*types.Pointer).Elem().Underlying().(*types.Array); isArr {
		return false
	}
	captured := false
	for _, r := range *a.Referrers() {
		switch x := r.(type) {
		case *ssa.Store:
			if x.Val == ssa.Value(a) {
				return false
			}
		case *ssa.UnOp, *ssa.DebugRef, *ssa.FieldAddr:
			if fa, ok := x.(*ssa.FieldAddr); ok {
				// the address of a field must itself only be loaded/stored
				if fa.Referrers() != nil {
					for _, rr := range *fa.Referrers() {
						switch rr.(type) {
						case *ssa.Store, *ssa.UnOp, *ssa.DebugRef:
						default:
							return false
						}
					}
				}
			}
		case *ssa.MakeClosure:
			captured = true
			// the closure must only be invoked directly (call or defer) by this function
			if x.Referrers() != nil {
				for _, rr := range *x.Referrers() {
					switch c := rr.(type) {
					case *ssa.Defer:
						if c.Call.Value != ssa.Value(x) {
							return false
						}
					case *ssa.Call:
						if c.Call.Value != ssa.Value(x) {
							return false
						}
					case *ssa.DebugRef:
					default:
						return false
					}
				}
			}
		default:
			return false
		}
	}
	return captured
}

// nilTermOf: the term whose being zero means "nil pointer" for a dereference at lv.
func nilTermOf(lv *LValue) string {
	if lv.Ptr != "" {
		return lv.Ptr
	}
	return lv.Obj
}
