package main

// Specification expression language: lexer, AST and Pratt parser.
// Go-like expressions plus ==>, <==>, forall/exists, old(), result, $k, ?:, set operators.

import (
	"fmt"
	"strings"
	"unicode"
)

type Expr interface{}

type (
	Ident   struct{ Name string }
	IntLit  struct{ Val string }
	BoolLit struct{ Val bool }
	StrLit  struct{ Val string }
	NilLit  struct{}
	Unary   struct {
		Op string
		X  Expr
	}
	Binary struct {
		Op   string
		X, Y Expr
	}
	Cond struct{ C, A, B Expr }
	Call struct {
		Fun  string
		Args []Expr
	}
	Field struct {
		X    Expr
		Name string
	}
	Index  struct{ X, I Expr }
	SliceE struct{ X, Lo, Hi Expr }
	Deref  struct{ X Expr }
	Quant  struct {
		Forall bool
		Vars   []SParam
		Trig   [][]Expr
		Body   Expr
	}
	// TypeIs: x is T  (dynamic type test on an interface value)
	TypeIs struct {
		X Expr
		T *TypeX
	}
	// Cast: x.(T)  (payload of an interface value seen as T)
	Cast struct {
		X Expr
		T *TypeX
	}
)

// SParam is a typed spec variable.
type SParam struct {
	Name string
	T    *TypeX
}

// TypeX is a syntactic type expression.
type TypeX struct {
	Kind string // name, ptr, slice, array, map, set, seq
	Name string // for name: possibly qualified "pkg.T"
	Len  string
	Elem *TypeX
	Key  *TypeX
}

func (t *TypeX) String() string {
	if t == nil {
		return "<nil>"
	}
	switch t.Kind {
	case "name":
		return t.Name
	case "ptr":
		return "*" + t.Elem.String()
	case "slice":
		return "[]" + t.Elem.String()
	case "array":
		return "[" + t.Len + "]" + t.Elem.String()
	case "map":
		return "map[" + t.Key.String() + "]" + t.Elem.String()
	case "set":
		return "set[" + t.Elem.String() + "]"
	case "seq":
		return "seq[" + t.Elem.String() + "]"
	}
	return "?"
}

type tok struct {
	kind string // id, int, str, op, eof
	s    string
	pos  int
}

type lexer struct {
	src  string
	toks []tok
	p    int
}

var ops = []string{"<==>", "==>", "::", "<=", ">=", "==", "!=", "&&", "||", "<<", ">>", "&^", "+", "-", "*", "/", "%", "<", ">", "!", "(", ")", "[", "]", "{", "}", ",", ".", ":", "?", "&", "|", "^", "=", ";"}

func lex(src string) ([]tok, error) {
	var out []tok
	i := 0
	for i < len(src) {
		c := src[i]
		if c == ' ' || c == '\t' || c == '\n' || c == '\r' {
			i++
			continue
		}
		if c == '/' && i+1 < len(src) && src[i+1] == '/' {
			// trailing comment
			for i < len(src) && src[i] != '\n' {
				i++
			}
			continue
		}
		if unicode.IsLetter(rune(c)) || c == '_' || c == '$' {
			j := i + 1
			for j < len(src) && (unicode.IsLetter(rune(src[j])) || unicode.IsDigit(rune(src[j])) || src[j] == '_' || src[j] == '$' || src[j] == '/') {
				// allow '/' inside identifiers only when followed by a letter and preceded by a letter (package paths like math/big)
				if src[j] == '/' {
					if j+1 < len(src) && unicode.IsLetter(rune(src[j+1])) && pathLike(src[i:j]) {
						j++
						continue
					}
					break
				}
				j++
			}
			out = append(out, tok{"id", src[i:j], i})
			i = j
			continue
		}
		if unicode.IsDigit(rune(c)) {
			j := i + 1
			for j < len(src) && (unicode.IsDigit(rune(src[j])) || src[j] == 'x' || src[j] == 'X' || src[j] == '_' || (src[j] >= 'a' && src[j] <= 'f') || (src[j] >= 'A' && src[j] <= 'F')) {
				j++
			}
			out = append(out, tok{"int", strings.ReplaceAll(src[i:j], "_", ""), i})
			i = j
			continue
		}
		if c == '"' {
			j := i + 1
			for j < len(src) && src[j] != '"' {
				if src[j] == '\\' {
					j++
				}
				j++
			}
			if j >= len(src) {
				return nil, fmt.Errorf("unterminated string at %d", i)
			}
			out = append(out, tok{"str", src[i+1 : j], i})
			i = j + 1
			continue
		}
		matched := false
		for _, o := range ops {
			if strings.HasPrefix(src[i:], o) {
				out = append(out, tok{"op", o, i})
				i += len(o)
				matched = true
				break
			}
		}
		if !matched {
			return nil, fmt.Errorf("bad character %q at %d in %q", c, i, src)
		}
	}
	out = append(out, tok{"eof", "", len(src)})
	return out, nil
}

// pathLike: identifiers containing '/' are only package paths, which are all lowercase/digits/dots
func pathLike(s string) bool {
	for _, r := range s {
		if !(unicode.IsLower(r) || unicode.IsDigit(r) || r == '/' || r == '_' || r == '.') {
			return false
		}
	}
	return true
}

type parser struct {
	toks []tok
	p    int
	src  string
}

func newParser(src string) (*parser, error) {
	t, err := lex(src)
	if err != nil {
		return nil, err
	}
	return &parser{toks: t, src: src}, nil
}

func (p *parser) peek() tok { return p.toks[p.p] }
func (p *parser) next() tok  { t := p.toks[p.p]; p.p++; return t }
func (p *parser) isOp(s string) bool {
	t := p.peek()
	return t.kind == "op" && t.s == s
}
func (p *parser) isID(s string) bool {
	t := p.peek()
	return t.kind == "id" && t.s == s
}
func (p *parser) expectOp(s string) error {
	if !p.isOp(s) {
		return fmt.Errorf("expected %q at %d, found %q in %q", s, p.peek().pos, p.peek().s, p.src)
	}
	p.next()
	return nil
}

func parseExpr(src string) (Expr, error) {
	p, err := newParser(src)
	if err != nil {
		return nil, err
	}
	e, err := p.expr(0)
	if err != nil {
		return nil, err
	}
	if p.peek().kind != "eof" {
		return nil, fmt.Errorf("trailing input at %d (%q) in %q", p.peek().pos, p.peek().s, src)
	}
	return e, nil
}

// binding powers
var binPrec = map[string]int{
	"<==>": 1, "==>": 2, "||": 4, "&&": 5,
	"==": 6, "!=": 6, "<": 6, "<=": 6, ">": 6, ">=": 6, "in": 6, "subset": 6, "is": 6,
	"+": 7, "-": 7, "|": 7, "^": 7, "union": 7, "minus": 7,
	"*": 8, "/": 8, "%": 8, "&": 8, "<<": 8, ">>": 8, "&^": 8, "intersect": 8,
}

func (p *parser) binOp() (string, int, bool) {
	t := p.peek()
	if t.kind == "op" || (t.kind == "id" && (t.s == "in" || t.s == "subset" || t.s == "union" || t.s == "minus" || t.s == "intersect" || t.s == "is")) {
		if pr, ok := binPrec[t.s]; ok {
			return t.s, pr, true
		}
	}
	return "", 0, false
}

func (p *parser) expr(minPrec int) (Expr, error) {
	lhs, err := p.unary()
	if err != nil {
		return nil, err
	}
	for {
		if p.isOp("?") && minPrec <= 0 {
			p.next()
			a, err := p.expr(1)
			if err != nil {
				return nil, err
			}
			if err := p.expectOp(":"); err != nil {
				return nil, err
			}
			b, err := p.expr(0)
			if err != nil {
				return nil, err
			}
			lhs = &Cond{lhs, a, b}
			continue
		}
		op, pr, ok := p.binOp()
		if !ok || pr < minPrec {
			return lhs, nil
		}
		p.next()
		if op == "is" {
			t, err := p.typeX()
			if err != nil {
				return nil, err
			}
			lhs = &TypeIs{lhs, t}
			continue
		}
		var rhs Expr
		if op == "==>" { // right associative
			rhs, err = p.expr(pr)
		} else {
			rhs, err = p.expr(pr + 1)
		}
		if err != nil {
			return nil, err
		}
		lhs = &Binary{op, lhs, rhs}
	}
}

func (p *parser) unary() (Expr, error) {
	t := p.peek()
	if t.kind == "op" {
		switch t.s {
		case "!":
			p.next()
			x, err := p.unary()
			if err != nil {
				return nil, err
			}
			return &Unary{"!", x}, nil
		case "-":
			p.next()
			x, err := p.unary()
			if err != nil {
				return nil, err
			}
			return &Unary{"-", x}, nil
		case "*":
			p.next()
			x, err := p.unary()
			if err != nil {
				return nil, err
			}
			return &Deref{x}, nil
		}
	}
	if t.kind == "id" && (t.s == "forall" || t.s == "exists") {
		p.next()
		q := &Quant{Forall: t.s == "forall"}
		for {
			// names [, names] type
			var names []string
			for {
				n := p.next()
				if n.kind != "id" {
					return nil, fmt.Errorf("quantifier: expected variable name at %d in %q", n.pos, p.src)
				}
				names = append(names, n.s)
				if p.isOp(",") {
					// lookahead: "i, j int" vs "i int, j int": after comma comes an id; if the token after that is '::' or ',' or '{' it is ambiguous; treat as name list when the following token is id followed by (id|op "*"|"[")
					save := p.p
					p.next()
					if p.peek().kind == "id" && p.p+1 < len(p.toks) {
						nx := p.toks[p.p+1]
						if nx.kind == "id" || (nx.kind == "op" && (nx.s == "*" || nx.s == "[" || nx.s == ",")) {
							continue
						}
					}
					p.p = save
				}
				break
			}
			ty, err := p.typeX()
			if err != nil {
				return nil, err
			}
			for _, n := range names {
				q.Vars = append(q.Vars, SParam{n, ty})
			}
			if p.isOp(",") {
				p.next()
				continue
			}
			break
		}
		for p.isOp("{") {
			p.next()
			var tr []Expr
			for {
				e, err := p.expr(0)
				if err != nil {
					return nil, err
				}
				tr = append(tr, e)
				if p.isOp(",") {
					p.next()
					continue
				}
				break
			}
			if err := p.expectOp("}"); err != nil {
				return nil, err
			}
			q.Trig = append(q.Trig, tr)
		}
		if err := p.expectOp("::"); err != nil {
			return nil, err
		}
		body, err := p.expr(0)
		if err != nil {
			return nil, err
		}
		q.Body = body
		return q, nil
	}
	return p.postfix()
}

func (p *parser) postfix() (Expr, error) {
	x, err := p.primary()
	if err != nil {
		return nil, err
	}
	for {
		switch {
		case p.isOp("."):
			p.next()
			if p.isOp("(") { // type assertion x.(T)
				p.next()
				t, err := p.typeX()
				if err != nil {
					return nil, err
				}
				if err := p.expectOp(")"); err != nil {
					return nil, err
				}
				x = &Cast{x, t}
				continue
			}
			n := p.next()
			if n.kind != "id" {
				return nil, fmt.Errorf("expected field name at %d in %q", n.pos, p.src)
			}
			x = &Field{x, n.s}
		case p.isOp("["):
			p.next()
			var lo, hi Expr
			if !p.isOp(":") {
				lo, err = p.expr(0)
				if err != nil {
					return nil, err
				}
			}
			if p.isOp(":") {
				p.next()
				if !p.isOp("]") {
					hi, err = p.expr(0)
					if err != nil {
						return nil, err
					}
				}
				if err := p.expectOp("]"); err != nil {
					return nil, err
				}
				x = &SliceE{x, lo, hi}
				continue
			}
			if err := p.expectOp("]"); err != nil {
				return nil, err
			}
			x = &Index{x, lo}
		default:
			return x, nil
		}
	}
}

func (p *parser) primary() (Expr, error) {
	t := p.next()
	switch t.kind {
	case "int":
		return &IntLit{t.s}, nil
	case "str":
		return &StrLit{t.s}, nil
	case "id":
		switch t.s {
		case "true":
			return &BoolLit{true}, nil
		case "false":
			return &BoolLit{false}, nil
		case "nil":
			return &NilLit{}, nil
		}
		if p.isOp("(") {
			p.next()
			var args []Expr
			if !p.isOp(")") {
				for {
					a, err := p.expr(0)
					if err != nil {
						return nil, err
					}
					args = append(args, a)
					if p.isOp(",") {
						p.next()
						continue
					}
					break
				}
			}
			if err := p.expectOp(")"); err != nil {
				return nil, err
			}
			return &Call{t.s, args}, nil
		}
		return &Ident{t.s}, nil
	case "op":
		if t.s == "(" {
			e, err := p.expr(0)
			if err != nil {
				return nil, err
			}
			if err := p.expectOp(")"); err != nil {
				return nil, err
			}
			return e, nil
		}
	}
	return nil, fmt.Errorf("unexpected %q at %d in %q", t.s, t.pos, p.src)
}

func (p *parser) typeX() (*TypeX, error) {
	t := p.next()
	if t.kind == "op" {
		switch t.s {
		case "*":
			e, err := p.typeX()
			if err != nil {
				return nil, err
			}
			return &TypeX{Kind: "ptr", Elem: e}, nil
		case "[":
			if p.isOp("]") {
				p.next()
				e, err := p.typeX()
				if err != nil {
					return nil, err
				}
				return &TypeX{Kind: "slice", Elem: e}, nil
			}
			n := p.next()
			if err := p.expectOp("]"); err != nil {
				return nil, err
			}
			e, err := p.typeX()
			if err != nil {
				return nil, err
			}
			return &TypeX{Kind: "array", Len: n.s, Elem: e}, nil
		}
	}
	if t.kind == "id" {
		switch t.s {
		case "map", "set", "seq":
			if p.isOp("[") {
				p.next()
				k, err := p.typeX()
				if err != nil {
					return nil, err
				}
				if err := p.expectOp("]"); err != nil {
					return nil, err
				}
				if t.s == "map" {
					e, err := p.typeX()
					if err != nil {
						return nil, err
					}
					return &TypeX{Kind: "map", Key: k, Elem: e}, nil
				}
				return &TypeX{Kind: t.s, Elem: k}, nil
			}
		}
		name := t.s
		if p.isOp(".") && p.p+1 < len(p.toks) && p.toks[p.p+1].kind == "id" {
			p.next()
			name += "." + p.next().s
		}
		return &TypeX{Kind: "name", Name: name}, nil
	}
	return nil, fmt.Errorf("expected type at %d (%q) in %q", t.pos, t.s, p.src)
}

// paramList parses "(a T, b, c U)" -> params; used by spec func / pred headers.
func (p *parser) paramList() ([]SParam, error) {
	if err := p.expectOp("("); err != nil {
		return nil, err
	}
	var out []SParam
	if p.isOp(")") {
		p.next()
		return out, nil
	}
	for {
		var names []string
		for {
			n := p.next()
			if n.kind != "id" {
				return nil, fmt.Errorf("expected parameter name at %d in %q", n.pos, p.src)
			}
			names = append(names, n.s)
			if p.isOp(",") {
				// "a, b T"
				save := p.p
				p.next()
				if p.peek().kind == "id" && p.p+1 < len(p.toks) {
					nx := p.toks[p.p+1]
					if nx.kind == "op" && (nx.s == "," || nx.s == ")") {
						// could be "a, b T" continuing or untyped list; treat as names
						continue
					}
					if nx.kind == "id" || (nx.kind == "op" && (nx.s == "*" || nx.s == "[")) {
						continue
					}
				}
				p.p = save
			}
			break
		}
		var ty *TypeX
		if !p.isOp(",") && !p.isOp(")") {
			var err error
			ty, err = p.typeX()
			if err != nil {
				return nil, err
			}
		}
		for _, n := range names {
			out = append(out, SParam{n, ty})
		}
		if p.isOp(",") {
			p.next()
			continue
		}
		break
	}
	if err := p.expectOp(")"); err != nil {
		return nil, err
	}
	return out, nil
}

func exprString(e Expr) string {
	switch x := e.(type) {
	case *Ident:
		return x.Name
	case *IntLit:
		return x.Val
	case *BoolLit:
		return fmt.Sprint(x.Val)
	case *StrLit:
		return fmt.Sprintf("%q", x.Val)
	case *NilLit:
		return "nil"
	case *Unary:
		return x.Op + exprString(x.X)
	case *Binary:
		return "(" + exprString(x.X) + " " + x.Op + " " + exprString(x.Y) + ")"
	case *Cond:
		return "(" + exprString(x.C) + " ? " + exprString(x.A) + " : " + exprString(x.B) + ")"
	case *Call:
		var a []string
		for _, y := range x.Args {
			a = append(a, exprString(y))
		}
		return x.Fun + "(" + strings.Join(a, ", ") + ")"
	case *Field:
		return exprString(x.X) + "." + x.Name
	case *Index:
		return exprString(x.X) + "[" + exprString(x.I) + "]"
	case *SliceE:
		lo, hi := "", ""
		if x.Lo != nil {
			lo = exprString(x.Lo)
		}
		if x.Hi != nil {
			hi = exprString(x.Hi)
		}
		return exprString(x.X) + "[" + lo + ":" + hi + "]"
	case *Deref:
		return "*" + exprString(x.X)
	case *Quant:
		q := "exists"
		if x.Forall {
			q = "forall"
		}
		var vs []string
		for _, v := range x.Vars {
			vs = append(vs, v.Name+" "+v.T.String())
		}
		return "(" + q + " " + strings.Join(vs, ", ") + " :: " + exprString(x.Body) + ")"
	case *TypeIs:
		return "(" + exprString(x.X) + " is " + x.T.String() + ")"
	case *Cast:
		return exprString(x.X) + ".(" + x.T.String() + ")"
	}
	return "?"
}
