package main

import "go/types"

func ptr(t types.Type) types.Type { return types.NewPointer(t) }
