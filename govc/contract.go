package main

// Contract files: comment-only Go files (//go:build verif) in /repo/<pkg>/verif_contracts.go
// and trusted library specs in /verif/contracts/lib/*.spec.

import (
	"fmt"
	"os"
	"path/filepath"
	"regexp"
	"sort"
	"strconv"
	"strings"
)

type Clause struct {
	Label string
	E     Expr
	Src   string
	Where string
}

type FuncContract struct {
	Key         string
	PkgPath     string // package whose scope resolves names in the clauses
	ParamNames  []string
	Requires    []Clause
	Ensures     []Clause
	AssumedEnsures []Clause // assumed at call sites, not proved against the body (each one is listed as trusted)
	BodyEnsures    []Clause // proved against the body (also under safety_only), not part of the summary callers use
	Modifies    []Expr
	ModifiesSrc []string
	LoopInvs    map[int][]Clause
	AtCall      map[string][]Clause // assertions checked in the caller just before each call of the named callee
	GhostSets   []GhostSet          // ghost assignments performed when the function returns
	Stable      []Expr              // fields that opaque callees are assumed never to write (set once at construction)
	StableSrc   []string
	AllocUnbounded bool
	Locals            map[string]int  // locals name=k: the contract's name for the k-th named local (by position) of the function, used when the code no longer has a local of that name
	AssumeUnreachable map[string]bool // assume_unreachable f: calls to the no-return function f in this body are assumed unreachable (listed)
	AssumePre      map[string]bool // assume_pre f, g: preconditions of these callees are assumed at their calls (reported as assumptions)
	AllocBound     []Clause // alloc_bound <expr over $n>: what every make([]T, $n) of this function must satisfy (replaces the fixed bound)
	OwnPanicsNever bool             // the function's own run-time panics (index, nil, slice, division, explicit panic) are excluded; callees are not judged
	OpaqueCalls bool                // uncontracted callees are treated as opaque: arbitrary effect on memory, may panic
	PanicOnlyWhen []Clause          // a run-time panic is acceptable only in states satisfying one of these
	PanicsNever bool
	MayPanic    []Clause
	Inline      bool
	Trusted     bool
	SafetyOnly  bool // the body is checked for its own panics, callee preconditions and at-call assertions only; postconditions and frame are assumed (listed)
	NoReturn    bool // the function never returns normally (panics / exits)
	Pure        bool // result is a function of its arguments (and nothing else): same args -> same result
	Uses        []string
	Fresh       bool // result is freshly allocated
	Where       string
	Invoke      bool
	IsLib       bool
	Reads       []string // informational
}

type GhostSet struct {
	Name string
	E    Expr
	Src  string
}

type SpecFunc struct {
	Name    string
	PkgPath string
	Params  []SParam
	Ret     *TypeX
	Body    Expr // nil => uninterpreted (possibly with axioms)
	Axioms  []Clause
	IsPred  bool
	Where   string
	rec, recKnown bool
}

type Lemma struct {
	Name      string
	PkgPath   string
	E         Expr
	Induction string
	Uses      []string
	Where     string
	Src       string
}

type GhostVar struct {
	Name    string
	PkgPath string
	T       *TypeX
}

type FuncField struct {
	Field  string // "(*pkg.T).field"
	Target string // function key
}

type Contracts struct {
	Funcs      map[string]*FuncContract
	SpecFuncs  map[string]*SpecFunc // name -> (names are global; package-qualified on clash)
	Lemmas     map[string]*Lemma
	Ghosts     map[string]*GhostVar
	FuncFields map[string]string
	PureSinks  []*regexp.Regexp
	SinkSrc    []string
	OpaqueTys  map[string]bool
	Files      []string
	NonConsensusMapLoops map[string]string
}

func newContracts() *Contracts {
	return &Contracts{Funcs: map[string]*FuncContract{}, SpecFuncs: map[string]*SpecFunc{}, Lemmas: map[string]*Lemma{}, Ghosts: map[string]*GhostVar{}, FuncFields: map[string]string{}, OpaqueTys: map[string]bool{}, NonConsensusMapLoops: map[string]string{}}
}

var directiveKW = []string{"func", "invoke", "spec", "pred", "lemma", "axiom", "ghost", "requires", "ensures", "modifies", "loop", "panics_never", "may_panic", "inline", "trusted", "uses", "noreturn", "pure", "fresh_result", "funcfield", "sink", "opaque", "maploop", "at", "opaque_calls", "panic_only_when", "stable", "own_panics_never", "alloc_unbounded", "alloc_bound", "assume_pre", "ghost_set", "assume_ensures", "safety_only", "assume_unreachable", "locals", "body_ensures"}

type directive struct {
	kw    string
	rest  string
	where string
}

func readDirectives(path string) ([]directive, error) {
	data, err := os.ReadFile(path)
	if err != nil {
		return nil, err
	}
	var out []directive
	isGo := strings.HasSuffix(path, ".go")
	for n, line := range strings.Split(string(data), "\n") {
		l := strings.TrimSpace(line)
		var content string
		if isGo {
			if strings.HasPrefix(l, "//@") {
				content = l[3:]
			} else if strings.HasPrefix(l, "// @") {
				content = l[4:]
			} else {
				continue
			}
		} else {
			if strings.HasPrefix(l, "#") || l == "" {
				continue
			}
			content = l
		}
		// strip trailing comment introduced by " // " (not inside strings; specs do not use // otherwise)
		if i := strings.Index(content, " // "); i >= 0 {
			content = content[:i]
		}
		content = strings.TrimSpace(content)
		if content == "" {
			continue
		}
		first := content
		if i := strings.IndexAny(content, " \t"); i >= 0 {
			first = content[:i]
		}
		isKW := false
		for _, k := range directiveKW {
			if first == k {
				isKW = true
			}
		}
		where := fmt.Sprintf("%s:%d", path, n+1)
		if isKW {
			out = append(out, directive{kw: first, rest: strings.TrimSpace(content[len(first):]), where: where})
		} else {
			if len(out) == 0 {
				return nil, fmt.Errorf("%s: continuation line without directive", where)
			}
			out[len(out)-1].rest += " " + content
		}
	}
	return out, nil
}

var funcHdrRe = regexp.MustCompile(`^(?:\(\s*(?:([A-Za-z_]\w*)\s+)?(\*?)([\w./\-]+)\s*\)\s*)?([\w./$\-]+)\s*(?:\((.*)\))?$`)

// canonFuncKey parses a function header of a contract. params: the positional names of the header's parameter list;
// when the header also names the receiver ("(cs *T) f(a, b)") the receiver's name comes first, so that the list is
// positional over receiver + parameters and the contract keeps working when the code renames any of them.
func canonFuncKey(hdr, pkgPath string) (key string, params []string, err error) {
	m := funcHdrRe.FindStringSubmatch(strings.TrimSpace(hdr))
	if m == nil {
		return "", nil, fmt.Errorf("bad function header %q", hdr)
	}
	recvName, star, recv, name, plist := m[1], m[2], m[3], strings.TrimPrefix(m[4], "."), m[5]
	hasList := plist != "" || strings.HasSuffix(strings.TrimSpace(hdr), "()")
	if recvName != "" && hasList {
		params = append(params, recvName)
	}
	if plist != "" {
		for _, p := range strings.Split(plist, ",") {
			p = strings.TrimSpace(p)
			if i := strings.IndexAny(p, " \t"); i >= 0 {
				p = p[:i]
			}
			params = append(params, p)
		}
	}
	if recv != "" {
		if !strings.Contains(recv, ".") {
			recv = pkgPath + "." + recv
		}
		return "(" + star + recv + ")." + name, params, nil
	}
	if !strings.Contains(name, ".") {
		name = pkgPath + "." + name
	}
	return name, params, nil
}

func splitLabel(rest string) (label, body string) {
	rest = strings.TrimSpace(rest)
	if strings.HasPrefix(rest, "@") {
		i := strings.IndexAny(rest, " \t")
		if i < 0 {
			return rest[1:], ""
		}
		return rest[1:i], strings.TrimSpace(rest[i:])
	}
	return "", rest
}

func (c *Contracts) loadFile(path, pkgPath string, isLib bool) error {
	ds, err := readDirectives(path)
	if err != nil {
		return err
	}
	c.Files = append(c.Files, path)
	var curF *FuncContract
	var curS *SpecFunc
	var curL *Lemma
	for _, d := range ds {
		fail := func(e error) error { return fmt.Errorf("%s: %v", d.where, e) }
		switch d.kw {
		case "func", "invoke":
			key, params, err := canonFuncKey(d.rest, pkgPath)
			if err != nil {
				return fail(err)
			}
			if _, dup := c.Funcs[key]; dup {
				return fail(fmt.Errorf("duplicate contract for %s", key))
			}
			curF = &FuncContract{Key: key, PkgPath: pkgPath, ParamNames: params, LoopInvs: map[int][]Clause{}, AtCall: map[string][]Clause{}, Where: d.where, Invoke: d.kw == "invoke", IsLib: isLib, Trusted: isLib}
			c.Funcs[key] = curF
			curS, curL = nil, nil
		case "spec", "pred":
			rest := d.rest
			isPred := d.kw == "pred"
			if !isPred {
				if !strings.HasPrefix(rest, "func ") {
					return fail(fmt.Errorf("expected 'spec func'"))
				}
				rest = strings.TrimSpace(rest[5:])
			}
			var bodySrc string
			hdr := rest
			if i := indexTopLevelEq(rest); i >= 0 {
				hdr, bodySrc = strings.TrimSpace(rest[:i]), strings.TrimSpace(rest[i+1:])
			}
			p, err := newParser(hdr)
			if err != nil {
				return fail(err)
			}
			nameTok := p.next()
			if nameTok.kind != "id" {
				return fail(fmt.Errorf("spec func: expected name"))
			}
			params, err := p.paramList()
			if err != nil {
				return fail(err)
			}
			var ret *TypeX
			if isPred {
				ret = &TypeX{Kind: "name", Name: "bool"}
			} else {
				ret, err = p.typeX()
				if err != nil {
					return fail(err)
				}
			}
			if p.peek().kind != "eof" {
				return fail(fmt.Errorf("trailing tokens in spec func header %q", hdr))
			}
			sf := &SpecFunc{Name: nameTok.s, PkgPath: pkgPath, Params: params, Ret: ret, IsPred: isPred, Where: d.where}
			if bodySrc != "" {
				sf.Body, err = parseExpr(bodySrc)
				if err != nil {
					return fail(err)
				}
			}
			if old, dup := c.SpecFuncs[sf.Name]; dup {
				return fail(fmt.Errorf("duplicate spec function %s (also at %s)", sf.Name, old.Where))
			}
			c.SpecFuncs[sf.Name] = sf
			curS, curF, curL = sf, nil, nil
		case "axiom":
			if curS == nil {
				return fail(fmt.Errorf("axiom outside spec func"))
			}
			label, body := splitLabel(d.rest)
			e, err := parseExpr(body)
			if err != nil {
				return fail(err)
			}
			curS.Axioms = append(curS.Axioms, Clause{label, e, body, d.where})
		case "lemma":
			i := strings.Index(d.rest, ":")
			if i < 0 {
				return fail(fmt.Errorf("lemma: expected 'name: formula'"))
			}
			name := strings.TrimSpace(d.rest[:i])
			body := strings.TrimSpace(d.rest[i+1:])
			ind := ""
			if j := strings.LastIndex(body, " by induction on "); j >= 0 {
				ind = strings.TrimSpace(body[j+len(" by induction on "):])
				body = strings.TrimSpace(body[:j])
			}
			e, err := parseExpr(body)
			if err != nil {
				return fail(err)
			}
			curL = &Lemma{Name: name, PkgPath: pkgPath, E: e, Induction: ind, Where: d.where, Src: body}
			if _, dup := c.Lemmas[name]; dup {
				return fail(fmt.Errorf("duplicate lemma %s", name))
			}
			c.Lemmas[name] = curL
			curF, curS = nil, nil
		case "ghost":
			rest := strings.TrimSpace(strings.TrimPrefix(d.rest, "var"))
			p, err := newParser(rest)
			if err != nil {
				return fail(err)
			}
			n := p.next()
			t, err := p.typeX()
			if err != nil {
				return fail(err)
			}
			c.Ghosts[n.s] = &GhostVar{Name: n.s, PkgPath: pkgPath, T: t}
		case "funcfield":
			parts := strings.Split(d.rest, "=>")
			if len(parts) != 2 {
				return fail(fmt.Errorf("funcfield: expected 'field => function'"))
			}
			key, _, err := canonFuncKey(strings.TrimSpace(parts[1]), pkgPath)
			if err != nil {
				return fail(err)
			}
			c.FuncFields[strings.TrimSpace(parts[0])] = key
		case "sink":
			re, err := regexp.Compile("^(?:" + d.rest + ")$")
			if err != nil {
				return fail(err)
			}
			c.PureSinks = append(c.PureSinks, re)
			c.SinkSrc = append(c.SinkSrc, d.rest)
		case "opaque":
			c.OpaqueTys[strings.TrimSpace(strings.TrimPrefix(d.rest, "type"))] = true
		case "maploop":
			// maploop <funckey>#<n> nonconsensus <reason>
			f := strings.Fields(d.rest)
			if len(f) < 2 {
				return fail(fmt.Errorf("maploop: expected '<func>#<n> <reason>'"))
			}
			c.NonConsensusMapLoops[f[0]] = strings.Join(f[1:], " ")
		default:
			if d.kw == "uses" && curL != nil {
				for _, u := range strings.Split(d.rest, ",") {
					curL.Uses = append(curL.Uses, strings.TrimSpace(u))
				}
				continue
			}
			if curF == nil {
				return fail(fmt.Errorf("%s outside a func contract", d.kw))
			}
			switch d.kw {
			case "requires", "ensures", "assume_ensures", "body_ensures":
				label, body := splitLabel(d.rest)
				e, err := parseExpr(body)
				if err != nil {
					return fail(err)
				}
				cl := Clause{label, e, body, d.where}
				switch d.kw {
				case "requires":
					curF.Requires = append(curF.Requires, cl)
				case "ensures":
					curF.Ensures = append(curF.Ensures, cl)
				case "body_ensures":
					curF.BodyEnsures = append(curF.BodyEnsures, cl)
				default:
					curF.AssumedEnsures = append(curF.AssumedEnsures, cl)
				}
			case "modifies":
				if strings.TrimSpace(d.rest) == "nothing" {
					continue
				}
				for _, part := range splitTopLevel(d.rest, ',') {
					e, err := parseExpr(part)
					if err != nil {
						return fail(err)
					}
					curF.Modifies = append(curF.Modifies, e)
					curF.ModifiesSrc = append(curF.ModifiesSrc, strings.TrimSpace(part))
				}
			case "loop":
				f := strings.SplitN(d.rest, " ", 3)
				if len(f) < 3 || f[1] != "invariant" {
					return fail(fmt.Errorf("expected 'loop N invariant expr'"))
				}
				n, err := strconv.Atoi(f[0])
				if err != nil {
					return fail(err)
				}
				label, body := splitLabel(f[2])
				e, err := parseExpr(body)
				if err != nil {
					return fail(err)
				}
				curF.LoopInvs[n] = append(curF.LoopInvs[n], Clause{label, e, body, d.where})
			case "at":
				f := strings.SplitN(d.rest, " ", 3)
				if len(f) < 3 || f[1] != "assert" {
					return fail(fmt.Errorf("expected 'at <callee> assert expr'"))
				}
				label, body := splitLabel(f[2])
				e, err := parseExpr(body)
				if err != nil {
					return fail(err)
				}
				curF.AtCall[f[0]] = append(curF.AtCall[f[0]], Clause{label, e, body, d.where})
			case "stable":
				for _, part := range splitTopLevel(d.rest, ',') {
					e, err := parseExpr(part)
					if err != nil {
						return fail(err)
					}
					curF.Stable = append(curF.Stable, e)
					curF.StableSrc = append(curF.StableSrc, strings.TrimSpace(part))
				}
			case "ghost_set":
				i := indexTopLevelEq(d.rest)
				if i < 0 {
					return fail(fmt.Errorf("expected 'ghost_set name = expr'"))
				}
				e, err := parseExpr(strings.TrimSpace(d.rest[i+1:]))
				if err != nil {
					return fail(err)
				}
				curF.GhostSets = append(curF.GhostSets, GhostSet{strings.TrimSpace(d.rest[:i]), e, d.rest})
			case "own_panics_never":
				curF.OwnPanicsNever = true
			case "alloc_bound":
				e, err := parseExpr(d.rest)
				if err != nil {
					return fail(err)
				}
				curF.AllocBound = append(curF.AllocBound, Clause{"", e, d.rest, d.where})
			case "locals":
				if curF.Locals == nil {
					curF.Locals = map[string]int{}
				}
				for _, n := range strings.Split(d.rest, ",") {
					kv := strings.SplitN(strings.TrimSpace(n), "=", 2)
					if len(kv) == 2 {
						k, err := strconv.Atoi(strings.TrimSpace(kv[1]))
						if err != nil {
							return fail(fmt.Errorf("locals: %v", err))
						}
						curF.Locals[strings.TrimSpace(kv[0])] = k
					}
				}
			case "assume_unreachable":
				if curF.AssumeUnreachable == nil {
					curF.AssumeUnreachable = map[string]bool{}
				}
				for _, n := range strings.Split(d.rest, ",") {
					if n = strings.TrimSpace(n); n != "" {
						curF.AssumeUnreachable[n] = true
					}
				}
			case "assume_pre":
				if curF.AssumePre == nil {
					curF.AssumePre = map[string]bool{}
				}
				for _, n := range strings.Split(d.rest, ",") {
					if n = strings.TrimSpace(n); n != "" {
						curF.AssumePre[n] = true
					}
				}
			case "alloc_unbounded":
				// make() sizes are not required to stay under the allocation bound (sizes that follow an in-memory value, not an input field)
				curF.AllocUnbounded = true
			case "opaque_calls":
				curF.OpaqueCalls = true
			case "panic_only_when":
				label, body := splitLabel(d.rest)
				e, err := parseExpr(body)
				if err != nil {
					return fail(err)
				}
				curF.PanicOnlyWhen = append(curF.PanicOnlyWhen, Clause{label, e, body, d.where})
			case "panics_never":
				curF.PanicsNever = true
			case "may_panic":
				body := strings.TrimSpace(strings.TrimPrefix(strings.TrimSpace(d.rest), "when"))
				e, err := parseExpr(body)
				if err != nil {
					return fail(err)
				}
				curF.MayPanic = append(curF.MayPanic, Clause{"", e, body, d.where})
			case "inline":
				curF.Inline = true
			case "trusted":
				curF.Trusted = true
			case "safety_only":
				curF.SafetyOnly = true
			case "noreturn":
				curF.NoReturn = true
			case "pure":
				curF.Pure = true
			case "fresh_result":
				curF.Fresh = true
			case "uses":
				for _, u := range strings.Split(d.rest, ",") {
					curF.Uses = append(curF.Uses, strings.TrimSpace(u))
				}
			default:
				return fail(fmt.Errorf("unknown directive %s", d.kw))
			}
		}
	}
	return nil
}

// indexTopLevelEq finds a single '=' (not ==, <=, >=, !=, ==>) at paren depth 0.
func indexTopLevelEq(s string) int {
	depth := 0
	for i := 0; i < len(s); i++ {
		switch s[i] {
		case '(', '[', '{':
			depth++
		case ')', ']', '}':
			depth--
		case '=':
			if depth != 0 {
				continue
			}
			prev := byte(' ')
			if i > 0 {
				prev = s[i-1]
			}
			next := byte(' ')
			if i+1 < len(s) {
				next = s[i+1]
			}
			if prev == '=' || prev == '<' || prev == '>' || prev == '!' || next == '=' {
				continue
			}
			return i
		}
	}
	return -1
}

func splitTopLevel(s string, sep byte) []string {
	var out []string
	depth, start := 0, 0
	for i := 0; i < len(s); i++ {
		switch s[i] {
		case '(', '[', '{':
			depth++
		case ')', ']', '}':
			depth--
		default:
			if s[i] == sep && depth == 0 {
				out = append(out, s[start:i])
				start = i + 1
			}
		}
	}
	out = append(out, s[start:])
	return out
}

// loadAll loads lib specs and the contract files of the given package directories.
func loadContracts(libDir string, pkgDirs map[string]string) (*Contracts, error) {
	c := newContracts()
	libs, _ := filepath.Glob(filepath.Join(libDir, "*.spec"))
	sort.Strings(libs)
	for _, f := range libs {
		if err := c.loadFile(f, "", true); err != nil {
			return nil, err
		}
	}
	var paths []string
	for p := range pkgDirs {
		paths = append(paths, p)
	}
	sort.Strings(paths)
	for _, p := range paths {
		f := filepath.Join(pkgDirs[p], "verif_contracts.go")
		if _, err := os.Stat(f); err != nil {
			continue
		}
		if err := c.loadFile(f, p, false); err != nil {
			return nil, err
		}
	}
	return c, nil
}

func (c *Contracts) isSink(key string) bool {
	for _, re := range c.PureSinks {
		if re.MatchString(key) {
			return true
		}
	}
	return false
}
