package main

// Property checks: run the functions and lemmas a property depends on, discharge every
// obligation, handle known findings, replay counterexamples, write evidence.

import (
	"bufio"
	"encoding/json"
	"fmt"
	"os"
	"os/exec"
	"path/filepath"
	"regexp"
	"sort"
	"strconv"
	"strings"
	"time"
)

type BoundedCheck struct {
	Name  string `json:"name"`
	Cmd   string `json:"cmd"`
	Bound string `json:"bound"`
	Tier  string `json:"tier"` // "quick" = run in both tiers, "thorough" = thorough only
}

type PropFile struct {
	ID          string         `json:"id"`
	Packages    []string       `json:"packages"`
	Functions   []string       `json:"functions"`
	Lemmas      []string       `json:"lemmas"`
	Bounded     []BoundedCheck `json:"bounded"`
	Assumptions []string       `json:"assumptions"`
	TrustedBase []string       `json:"trusted_base"`
	Sweeps      []string       `json:"sweeps"`
	AutoInline  []string       `json:"auto_inline"`
	NotDecided  []string       `json:"not_decided"`
}

type Finding struct {
	Kind       string // finding | fixed
	Property   string
	Obligation string
	Except     string
	Text       string
	Commit     string
}

var findingRe = regexp.MustCompile(`^(finding|fixed):\s+property=(\S+)\s+(?:obligation=(\S+)\s+)?(?:except="([^"]*)"\s+)?(?:commit=(\S+)\s+)?::\s*(.*)$`)

func loadFindings(path string) ([]Finding, error) {
	f, err := os.Open(path)
	if err != nil {
		if os.IsNotExist(err) {
			return nil, nil
		}
		return nil, err
	}
	defer f.Close()
	var out []Finding
	sc := bufio.NewScanner(f)
	sc.Buffer(make([]byte, 1<<20), 1<<20)
	n := 0
	for sc.Scan() {
		n++
		l := strings.TrimSpace(sc.Text())
		if l == "" || strings.HasPrefix(l, "#") {
			continue
		}
		m := findingRe.FindStringSubmatch(l)
		if m == nil {
			return nil, fmt.Errorf("%s:%d: malformed line", path, n)
		}
		out = append(out, Finding{Kind: m[1], Property: m[2], Obligation: m[3], Except: m[4], Commit: m[5], Text: m[6]})
	}
	return out, nil
}

func verifRoot() string {
	if d := os.Getenv("VERIF_ROOT"); d != "" {
		return d
	}
	return "/verif"
}

type obEv struct {
	Name   string `json:"name"`
	Kind   string `json:"kind"`
	Result string `json:"result"`
	Solver string `json:"solver"`
	Ms     int64  `json:"ms"`
}

func cmdCheck(propFile, tier string) int {
	t0 := time.Now()
	root := verifRoot()
	data, err := os.ReadFile(propFile)
	if err != nil {
		fmt.Fprintln(os.Stderr, err)
		return 2
	}
	var pf PropFile
	if err := json.Unmarshal(data, &pf); err != nil {
		fmt.Fprintln(os.Stderr, propFile+":", err)
		return 2
	}
	seed := 0
	if s := os.Getenv("VERIF_SEED"); s != "" {
		seed, _ = strconv.Atoi(s)
	}
	findings, err := loadFindings(filepath.Join(root, "KNOWN_FINDINGS.txt"))
	if err != nil {
		fmt.Fprintln(os.Stderr, err)
		return 2
	}
	outDir := filepath.Join(root, "out", "replay", pf.ID)
	os.RemoveAll(outDir)
	os.MkdirAll(outDir, 0755)
	scratch, _ := os.MkdirTemp(tmpBase(), "govc-"+pf.ID+"-")
	defer os.RemoveAll(scratch)

	violations := 0
	var violationLines []string
	violate := func(obl, text, body string, failingInput bool, replayFile string) {
		violations++
		if replayFile == "" {
			replayFile = filepath.Join(outDir, sanitizeFile(obl)+".txt")
			os.WriteFile(replayFile, []byte("obligation: "+obl+"\n"+text+"\n\n"+body+"\n"), 0644)
		}
		line := fmt.Sprintf("VIOLATION property=%s replay=%s obligation=%s", pf.ID, replayFile, obl)
		if !failingInput {
			line += " no-failing-input-found"
		}
		violationLines = append(violationLines, line)
		fmt.Println(line)
	}

	var overlay map[string][]byte
	if ov := os.Getenv("GOVC_OVERLAY"); ov != "" {
		overlay = map[string][]byte{}
		for _, part := range strings.Split(ov, ",") {
			kv := strings.SplitN(part, "=", 2)
			b, err := os.ReadFile(kv[1])
			if err != nil {
				fmt.Fprintln(os.Stderr, err)
				return 2
			}
			overlay[kv[0]] = b
		}
	}
	var frs []*FuncResult
	var w *World
	if len(pf.Functions)+len(pf.Lemmas) > 0 {
		w, err = loadWorld(repoDir(), libDir(), pf.Packages, overlay)
		if err != nil {
			// the tree does not load: nothing can be proved
			violate("load", "the packages of this property do not load / type-check", err.Error(), false, "")
			writeEvidence(root, &pf, tier, seed, nil, nil, nil, violations, time.Since(t0), nil, nil)
			return 1
		}
		for _, f := range findings {
			if f.Kind == "finding" && f.Obligation != "" {
				w.Findings[f.Obligation] = f
			}
		}
		for _, k := range pf.AutoInline {
			w.autoInline[expandKey(k)] = true
		}
		for _, l := range pf.Lemmas {
			frs = append(frs, verifyLemma(w, l))
		}
		for _, f := range pf.Functions {
			key := expandKey(f)
			fr := verifyFuncWithFindings(w, key, findings, pf.ID)
			frs = append(frs, fr)
		}
		timeout := 25
		if tier == "thorough" {
			timeout = 90
		}
		noRetry = func(name string) bool {
			for _, f := range findings {
				if f.Kind == "finding" && f.Property == pf.ID && f.Obligation != "" && strings.HasSuffix(name, f.Obligation[strings.LastIndex(f.Obligation, "#")+1:]) && strings.Contains(f.Obligation, "#") {
					if strings.HasPrefix(f.Obligation, name[:strings.Index(name+"#", "#")]) || strings.Contains(name, f.Obligation) {
						return true
					}
				}
			}
			return false
		}
		solveAll(scratch, frs, timeout, tier == "thorough", 8)
	}

	// evaluate
	nObl, nDis := 0, 0
	var obs []obEv
	var samples []interface{}
	var known []string
	trusted := map[string]bool{}
	notes := map[string]bool{}
	inlined := map[string]bool{}
	var funcs []string
	var solverMs int64
	for _, fr := range frs {
		funcs = append(funcs, fr.Short)
		for _, e := range fr.Errs {
			violate(fr.Short+"#generator", "the verification conditions of "+fr.Short+" could not be generated", e, false, "")
		}
		for _, t := range fr.Trusted {
			trusted[t] = true
		}
		for _, n := range fr.Notes {
			notes[n] = true
		}
		for _, n := range fr.Inlined {
			inlined[n] = true
		}
		for _, o := range fr.Obls {
			solverMs += o.Ms
			if o.Kind == "finding-witness" {
				if o.Result == "sat" {
					line := fmt.Sprintf("KNOWN-FINDING: property=%s %s", pf.ID, o.Src)
					fmt.Println(line)
					known = append(known, o.Name+": "+o.Src)
				}
				continue
			}
			if o.Kind == "finding-whole" {
				if o.Result != "unsat" {
					fmt.Printf("KNOWN-FINDING: property=%s %s\n", pf.ID, o.Src)
					known = append(known, o.Name+": "+o.Src)
				}
				continue
			}
			nObl++
			obs = append(obs, obEv{o.Name, o.Kind, o.Result, o.Solver, o.Ms})
			if o.ok() {
				nDis++
				if len(samples) < 3 && o.Kind != "cover" && o.Kind != "safety" {
					samples = append(samples, map[string]string{"obligation": o.Name, "clause": o.Src, "goal_smt": truncate(o.Goal, 600), "result": o.Result + " by " + o.Solver})
				}
				continue
			}
			// failed
			body := fmt.Sprintf("clause: %s\nresult: %s (%s)\nmodel/solver output:\n%s\n%s\nquery file content follows\n\n%s", o.Src, o.Result, o.Solver, o.Model, o.Output, readFileOr(o.File))
			if o.Expect == "sat" {
				violate(o.Name, "vacuity guard failed: the assumptions of this function are contradictory", body, false, "")
				continue
			}
			if o.Result == "sat" {
				rf, confirmed := tryReplay(root, outDir, &pf, fr, o)
				if confirmed {
					violate(o.Name, "", "", true, rf)
				} else {
					violate(o.Name, "obligation refuted by the solver; counterexample not reproduced on the real code (see model)", body, false, rf)
				}
			} else {
				violate(o.Name, "obligation not discharged ("+o.Result+")", body, false, "")
			}
		}
	}
	if len(pf.Functions)+len(pf.Lemmas) > 0 && nObl == 0 && violations == 0 {
		violate("vacuity", "no obligations were generated", "", false, "")
	}

	// bounded stand-ins
	var bounded []map[string]interface{}
	for _, b := range pf.Bounded {
		if os.Getenv("GOVC_SKIP_BOUNDED") != "" { // development only: contract work against a scratch tree
			continue
		}
		if b.Tier == "thorough" && tier != "thorough" {
			continue
		}
		bt0 := time.Now()
		cmd := exec.Command("bash", "-c", b.Cmd)
		cmd.Dir = root
		cmd.Env = append(os.Environ(), "VERIF_TIER="+tier, fmt.Sprintf("VERIF_SEED=%d", seed), "VERIF_PROP="+pf.ID)
		out, err := cmd.CombinedOutput()
		rec := map[string]interface{}{"name": b.Name, "bound": b.Bound, "wall_s": time.Since(bt0).Seconds(), "labelled": "bounded (not counted as proved)"}
		for _, line := range strings.Split(string(out), "\n") {
			if strings.HasPrefix(line, "KNOWN-FINDING:") {
				fmt.Println(line)
				known = append(known, line)
			}
			if strings.HasPrefix(line, "BOUNDED-CASES:") {
				rec["cases"] = strings.TrimSpace(strings.TrimPrefix(line, "BOUNDED-CASES:"))
			}
			if strings.HasPrefix(line, "VIOLATION ") {
				violations++
				violationLines = append(violationLines, line)
				fmt.Println(line)
			}
		}
		if err != nil && !strings.Contains(string(out), "VIOLATION ") {
			rf := filepath.Join(outDir, sanitizeFile("bounded."+b.Name)+".txt")
			os.WriteFile(rf, out, 0644)
			violate("bounded."+b.Name, "bounded stand-in failed to run", tail(string(out), 4000), false, rf)
		}
		rec["ok"] = err == nil
		bounded = append(bounded, rec)
	}

	sort.Strings(funcs)
	writeEvidence(root, &pf, tier, seed, funcs, obs, samples, violations, time.Since(t0), map[string]interface{}{
		"obligations": nObl, "discharged": nDis, "trusted": sortedKeys(trusted), "notes": sortedKeys(notes), "inlined": sortedKeys(inlined),
		"known": known, "bounded": bounded, "solver_ms": solverMs, "load_ms": loadMs(w),
	}, violationLines)
	fmt.Printf("property %s [%s]: %d functions/lemmas under contract, %d obligations, %d discharged, %d known findings matched, %d violations, %.1fs\n",
		pf.ID, tier, len(frs), nObl, nDis, len(known), violations, time.Since(t0).Seconds())
	if violations > 0 {
		return 1
	}
	return 0
}

func loadMs(w *World) int64 {
	if w == nil {
		return 0
	}
	return w.LoadTime.Milliseconds()
}

func tmpBase() string {
	if d := os.Getenv("TMPDIR"); d != "" {
		return d
	}
	return "/var/tmp"
}

func truncate(s string, n int) string {
	if len(s) > n {
		return s[:n] + "…"
	}
	return s
}
func tail(s string, n int) string {
	if len(s) > n {
		return s[len(s)-n:]
	}
	return s
}
func readFileOr(p string) string {
	b, err := os.ReadFile(p)
	if err != nil {
		return ""
	}
	return truncate(string(b), 200000)
}

// verifyFuncWithFindings verifies a function; obligations listed as known findings are re-posed
// with the known witness class excluded (so any other failure is still a violation), plus a
// witness query that tells whether the finding is still present.
func verifyFuncWithFindings(w *World, key string, findings []Finding, prop string) *FuncResult {
	var mine []Finding
	short := shortKey(key)
	for _, f := range findings {
		if f.Kind == "finding" && f.Property == prop && strings.HasPrefix(f.Obligation, short+"#") {
			mine = append(mine, f)
		}
	}
	exceptHook = nil
	if len(mine) > 0 {
		exceptHook = func(g *Gen, params map[string]*Value, pkgPath string) {
			g.exceptTerms = map[string]string{}
			for _, f := range mine {
				if f.Except == "" {
					g.exceptTerms[f.Obligation] = ""
					continue
				}
				e, err := parseExpr(f.Except)
				if err != nil {
					g.errorf("KNOWN_FINDINGS except=%q: %v", f.Except, err)
					continue
				}
				env := &Env{g: g, st: g.entry, old: g.entry, vars: params, pkgPath: pkgPath}
				g.exceptTerms[f.Obligation] = env.evalBool(e)
			}
		}
	}
	fr := verifyFunc(w, key)
	exceptHook = nil
	if len(mine) == 0 {
		return fr
	}
	var extra []*Oblig
	for _, o := range fr.Obls {
		for _, f := range mine {
			if f.Obligation != o.Name {
				continue
			}
			t, ok := fr.exceptTerms[o.Name]
			if !ok {
				continue
			}
			if t == "" {
				o.Kind = "finding-whole"
				o.Src = f.Text
				continue
			}
			wit := *o
			wit.Kind = "finding-witness"
			wit.Name = o.Name + "~known"
			wit.Src = f.Text
			wit.Extra = append(append([]string{}, o.Extra...), t)
			extra = append(extra, &wit)
			o.Extra = append(o.Extra, smtNot(t))
		}
	}
	fr.Obls = append(fr.Obls, extra...)
	return fr
}

var exceptHook func(g *Gen, params map[string]*Value, pkgPath string)

func writeEvidence(root string, pf *PropFile, tier string, seed int, funcs []string, obs []obEv, samples []interface{}, violations int, wall time.Duration, extra map[string]interface{}, vlines []string) {
	cov := map[string]interface{}{
		"checker_cmd":              fmt.Sprintf("./check %s %s  (govc: go/ssa naive form -> weakest-precondition style VCs -> z3 5.1.0 / z3 4.8.12 / cvc5 1.0.3 raced per obligation)", pf.ID, tier),
		"functions_under_contract": funcs,
		"per_obligation":           obs,
	}
	tb := append([]string{}, pf.TrustedBase...)
	assumptions := append([]string{}, pf.Assumptions...)
	nObl, nDis := 0, 0
	if extra != nil {
		nObl, _ = extra["obligations"].(int)
		nDis, _ = extra["discharged"].(int)
		if t, ok := extra["trusted"].([]string); ok {
			for _, x := range t {
				tb = append(tb, "trusted contract: "+x)
			}
			cov["trusted_contracts"] = t
		}
		if n, ok := extra["notes"].([]string); ok {
			cov["abstractions"] = n
			for _, x := range n {
				assumptions = append(assumptions, "abstraction: "+x)
			}
		}
		cov["inlined"] = extra["inlined"]
		cov["known_findings_matched"] = extra["known"]
		cov["bounded_standins"] = extra["bounded"]
		cov["solver_ms_total"] = extra["solver_ms"]
		cov["load_ms"] = extra["load_ms"]
	}
	tb = append(tb, "go/packages+go/types+go/ssa (x/tools v0.29.0) produce a faithful naive-form SSA of /repo's files", "govc's translation of each SSA instruction (mitigated by the gofeatures self-check and the must-fail mutant corpus)", "z3 4.8.12, z3 5.1.0, cvc5 1.0.3 answer unsat only for unsatisfiable queries", "sequential execution of each function (mutexes are no-ops, goroutines opaque); partial correctness (termination not proved)")
	cov["obligations"] = nObl
	cov["discharged"] = nDis
	cov["trusted_base"] = tb
	if len(samples) == 0 {
		samples = []interface{}{"none"}
	}
	cov["samples"] = samples
	cov["not_decided"] = pf.NotDecided
	cov["violation_lines"] = vlines
	// generic fallback keys so that the file stays valid when a property has only bounded checks
	cov["evaluations"] = nObl
	distinct := map[string]bool{}
	for _, o := range obs {
		if o.Kind != "cover" {
			distinct[o.Name] = true
		}
	}
	cov["distinct_nontrivial"] = len(distinct)
	cov["rule"] = "one evaluation = one named proof obligation generated from the real function body and its contract; non-trivial = not a vacuity cover"
	ev := map[string]interface{}{
		"property_id": pf.ID, "tier": tier, "seed": seed, "level": "proof", "coverage": cov, "assumptions": assumptions, "wall_s": wall.Seconds(), "violations": violations,
	}
	os.MkdirAll(filepath.Join(root, "evidence"), 0755)
	b, _ := json.MarshalIndent(ev, "", " ")
	os.WriteFile(filepath.Join(root, "evidence", pf.ID+".json"), append(b, '\n'), 0644)
}

// tryReplay instantiates a replay template (if one exists for the obligation or its function) with
// the model values and runs it against the real code. It returns the replay file and whether the
// real code exhibited the violation.
func tryReplay(root, outDir string, pf *PropFile, fr *FuncResult, o *Oblig) (string, bool) {
	vals := parseModel(o.Model)
	base := filepath.Join(root, "replay")
	cands := []string{filepath.Join(base, sanitizeFile(o.Name)+".go.tmpl"), filepath.Join(base, sanitizeFile(fr.Short)+".go.tmpl")}
	var tmpl []byte
	for _, c := range cands {
		if b, err := os.ReadFile(c); err == nil {
			tmpl = b
			break
		}
	}
	header := fmt.Sprintf("// replay for obligation %s\n// clause: %s\n// model: %s\n", o.Name, o.Src, strings.ReplaceAll(o.Model, "\n", " "))
	if tmpl == nil {
		rf := filepath.Join(outDir, sanitizeFile(o.Name)+".txt")
		os.WriteFile(rf, []byte(header+"\n(no replay constructor for this function)\n\nsolver output:\n"+o.Output+"\n\nquery:\n"+readFileOr(o.File)), 0644)
		return rf, false
	}
	src := string(tmpl)
	pkg, run := "", "TestReplay"
	for _, l := range strings.Split(src, "\n") {
		if strings.HasPrefix(l, "// pkg:") {
			pkg = strings.TrimSpace(l[7:])
		}
		if strings.HasPrefix(l, "// run:") {
			run = strings.TrimSpace(l[7:])
		}
	}
	for k, v := range vals {
		src = strings.ReplaceAll(src, "{{"+k+"}}", v)
	}
	if strings.Contains(src, "{{in_") {
		// unresolved placeholders: default to zero
		src = regexp.MustCompile(`\{\{in_[^}]*\}\}`).ReplaceAllString(src, "0")
	}
	rf := filepath.Join(outDir, sanitizeFile(o.Name)+"_test.go")
	os.WriteFile(rf, []byte(header+src), 0644)
	if pkg == "" {
		return rf, false
	}
	// inject as an in-package test through an overlay
	target := filepath.Join(repoDir(), strings.TrimPrefix(pkg, "./"), "zz_govc_replay_test.go")
	ov := map[string]interface{}{"Replace": map[string]string{target: rf}}
	ovb, _ := json.Marshal(ov)
	ovf := filepath.Join(outDir, sanitizeFile(o.Name)+".overlay.json")
	os.WriteFile(ovf, ovb, 0644)
	cmd := exec.Command("bash", "-c", fmt.Sprintf("ulimit -v 8000000; cd %s && go test -overlay %s -count=1 -vet=off -timeout 60s -run '^%s$' %s", repoDir(), ovf, run, pkg))
	cmd.Env = append(os.Environ(), "GOFLAGS=-mod=mod", "GOPROXY=off", "GOSUMDB=off", "GOTOOLCHAIN=local", "LIBRARY_PATH="+filepath.Join(root, "build", "stublibs"))
	out, err := cmd.CombinedOutput()
	f, _ := os.OpenFile(rf, os.O_APPEND|os.O_WRONLY, 0644)
	fmt.Fprintf(f, "\n/* replay run (go test exit error: %v):\n%s\n*/\n", err, strings.ReplaceAll(tail(string(out), 6000), "*/", "* /"))
	f.Close()
	confirmed := err != nil && strings.Contains(string(out), "REPLAY-VIOLATION")
	return rf, confirmed
}

var modelRe = regexp.MustCompile(`\((in_[^\s()]+)\s+(\(-\s*\d+\)|-?\d+|true|false)\)`)

func parseModel(m string) map[string]string {
	out := map[string]string{}
	for _, mm := range modelRe.FindAllStringSubmatch(m, -1) {
		v := mm[2]
		if strings.HasPrefix(v, "(-") {
			v = "-" + strings.TrimSpace(strings.TrimSuffix(strings.TrimPrefix(v, "(-"), ")"))
		}
		out[mm[1]] = v
	}
	return out
}
